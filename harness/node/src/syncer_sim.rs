//! SyncerSim — the real `lumina_node` `Syncer` over a mocked `P2p` + `InMemoryStore`, driven by a
//! plain-data schedule. Shared by C25 (window edge) and C38 (safety + convergence).
//!
//! Everything the network, the pruner and the daser do is decided by the recipe (`Scenario`), so a
//! failing history shrinks and replays. The sim runs on a `current_thread` tokio runtime with a
//! paused clock: timers of the code under test (1 s wait in `try_init`, exponential backoff, 60 s
//! report interval) elapse virtually. The sampling/pruning windows read the wall clock
//! (`Time::now()`), so header timestamps are placed relative to the real now with margins of at
//! least 15 minutes (usually hours) on each side of every cutoff.
//!
//! Chain layout (heights 1..=L, strictly increasing times):
//!   zone A  heights 1..=n_a                 older than BOTH windows            (prunable, never syncable)
//!   zone B  heights n_a+1..=n_a+n_b         between the two cutoffs
//!              pruning window > sampling window: outside sampling window, inside pruning window
//!              pruning window < sampling window: inside sampling window, beyond pruning window
//!   zone C  the rest                        inside both windows
//! The initial network head is the last zone-C height before `spare` further zone-C heights which
//! header-sub announces later.
//!
//! Pruner model (what `Pruner::get_next_prunable_batch` may remove): a stored height that is
//! beyond both windows (zone A), or — when the pruning window is the shorter one — a zone-B height
//! that is marked sampled and is not an edge of the synced (stored ∪ pruned) ranges.

use std::collections::BTreeSet;
use std::sync::Arc;
use std::time::Duration;

use celestia_types::ExtendedHeader;
use lumina_node::block_ranges::BlockRanges;
use lumina_node::events::{EventSubscriber, NodeEvent};
use lumina_node::store::{InMemoryStore, Store};
use lumina_node::test_utils::MockP2pHandle;
use lumina_node::verif::p2p_mock::{
    self, HeaderExErrKind, HeaderExResponder, HeaderExTarget, MockedCmd, NextCmd,
};
use lumina_node::verif::syncer_sim::{self as hook, SyncerSim};
use lv_common::prelude::*;
use lv_gen::chain::{Chain, ChainSpec, TimeBase, build_chain, build_fork, simple_chain_spec};

// ------------------------------------------------------------------------------------------------
// recipe
// ------------------------------------------------------------------------------------------------

#[derive(Clone, Copy, Debug, Serialize, Deserialize, PartialEq, Eq)]
pub enum PwCfg {
    /// pruning window == sampling window (no zone B)
    Equal,
    /// lumina's defaults: pruning = sampling + 1 h
    PlusHour,
    /// pruning = sampling + 12 h
    Longer,
    /// pruning = sampling − 12 h (prune-after-sampling mode, slow sync applies in zone B)
    Shorter,
    /// pruning = 6 h (in-memory-store style small footprint), sampling window as generated
    Short,
}

#[derive(Clone, Copy, Debug, Serialize, Deserialize, PartialEq, Eq)]
pub enum ErrK {
    NotFound,
    Invalid,
    Timeout,
    Closed,
}

#[derive(Clone, Debug, Serialize, Deserialize, PartialEq)]
pub enum Ans {
    /// the full honest run
    Honest,
    /// honest prefix of `1 + pick(frac, amount-1)` headers (amount >= 2, else full)
    Prefix { frac: u16 },
    /// header-ex error
    Error(ErrK),
    /// run of foreign-key fork headers for the requested heights (fork starts `back` heights
    /// below the origin), truncated like `Prefix` when `frac` is Some
    Fork { back: u8, salt: u8, frac: Option<u16> },
    /// honest headers for the first `1 + pick(at, amount-1)` heights, fork headers above
    HonestThenFork { at: u16, salt: u8 },
}

#[derive(Clone, Copy, Debug, Serialize, Deserialize, PartialEq, Eq)]
pub enum PrunePref {
    /// lowest stored height of the top stored range (the header that bounds further syncing)
    TopLowerEdge,
    /// any candidate
    Any,
}

#[derive(Clone, Debug, Serialize, Deserialize, PartialEq)]
pub enum Step {
    /// answer pending request `pick(sel, pending)`
    Answer { sel: u16, ans: Ans },
    /// keep answering honestly until `n` batches finished (or nothing is pending)
    ServeBatches { n: u8 },
    /// answer every sub-request of the ongoing batch from ONE foreign-key fork that starts `back`
    /// heights below the batch (so the batch is internally consistent and reaches the store's
    /// neighbour verification), until the batch finishes
    ForkBatch { back: u8, salt: u8 },
    /// pruner: `remove_height` of `count` heights starting at the preferred candidate and going up.
    /// `legal_only`: restrict to what the real pruner may remove (see module doc)
    Prune { sel: u16, pref: PrunePref, count: u8, legal_only: bool },
    /// daser: `mark_as_sampled` of up to `len` stored heights from `pick(sel, stored)` upwards
    Sample { sel: u16, len: u8 },
    /// the network produced `adv` blocks; header-sub announces the new head (when initialised)
    NewHead { adv: u8 },
    /// all peers gone
    Disconnect,
    /// a peer connects
    Connect { trusted: bool },
    /// let `secs` of virtual time pass
    Wait { secs: u8 },
}

#[derive(Clone, Debug, Serialize, Deserialize, PartialEq)]
pub struct Scenario {
    pub seed: u64,
    pub n_a: u16,
    pub n_b: u16,
    pub n_c: u16,
    pub spare: u8,
    /// sampling window in hours (24..=720)
    pub sw_hours: u16,
    pub pw: PwCfg,
    pub batch: u8,
    /// initially stored ranges: (start selector below the head, length)
    pub init: Vec<(u16, u8)>,
    /// mark the initial content as sampled
    pub init_sampled: bool,
    pub steps: Vec<Step>,
}

// ------------------------------------------------------------------------------------------------
// strategies
// ------------------------------------------------------------------------------------------------

pub fn ans_strategy(adversarial: bool) -> BoxedStrategy<Ans> {
    let errk = prop_oneof![Just(ErrK::NotFound), Just(ErrK::Invalid), Just(ErrK::Timeout), Just(ErrK::Closed)];
    if adversarial {
        prop_oneof![
            5 => Just(Ans::Honest),
            2 => any::<u16>().prop_map(|frac| Ans::Prefix { frac }),
            2 => errk.prop_map(Ans::Error),
            4 => (0u8..3, 1u8..8, prop::option::of(any::<u16>())).prop_map(|(back, salt, frac)| Ans::Fork { back, salt, frac }),
            2 => (any::<u16>(), 1u8..8).prop_map(|(at, salt)| Ans::HonestThenFork { at, salt }),
        ]
        .boxed()
    } else {
        prop_oneof![
            6 => Just(Ans::Honest),
            2 => any::<u16>().prop_map(|frac| Ans::Prefix { frac }),
            2 => errk.prop_map(Ans::Error),
        ]
        .boxed()
    }
}

pub fn step_strategy(adversarial: bool, wild_prune: bool) -> BoxedStrategy<Step> {
    let legal = if wild_prune { prop_oneof![4 => Just(true), 1 => Just(false)].boxed() } else { Just(true).boxed() };
    let fork_batch = if adversarial {
        (0u8..3, 1u8..8).prop_map(|(back, salt)| Step::ForkBatch { back, salt }).boxed()
    } else {
        (1u8..=2).prop_map(|n| Step::ServeBatches { n }).boxed()
    };
    prop_oneof![
        8 => (any::<u16>(), ans_strategy(adversarial)).prop_map(|(sel, ans)| Step::Answer { sel, ans }),
        6 => prop_oneof![3 => 1u8..=3, 2 => 1u8..=16].prop_map(|n| Step::ServeBatches { n }),
        3 => fork_batch,
        5 => (any::<u16>(), prop_oneof![3 => Just(PrunePref::TopLowerEdge), 1 => Just(PrunePref::Any)], 1u8..=6, legal)
            .prop_map(|(sel, pref, count, legal_only)| Step::Prune { sel, pref, count, legal_only }),
        2 => (any::<u16>(), 1u8..=64).prop_map(|(sel, len)| Step::Sample { sel, len }),
        5 => (1u8..=3).prop_map(|adv| Step::NewHead { adv }),
        1 => Just(Step::Disconnect),
        3 => prop_oneof![4 => Just(true), 1 => Just(false)].prop_map(|trusted| Step::Connect { trusted }),
        1 => (1u8..=120).prop_map(|secs| Step::Wait { secs }),
    ]
    .boxed()
}

pub struct Sizes {
    pub max_a: u16,
    pub max_b: u16,
    pub min_c: u16,
    pub max_c: u16,
    pub max_steps: usize,
}

pub fn scenario_strategy(sz: Sizes, adversarial: bool, wild_prune: bool) -> impl Strategy<Value = Scenario> {
    let pw = prop_oneof![
        2 => Just(PwCfg::PlusHour),
        2 => Just(PwCfg::Equal),
        1 => Just(PwCfg::Longer),
        2 => Just(PwCfg::Shorter),
        1 => Just(PwCfg::Short),
    ];
    let zones = (
        prop_oneof![1 => Just(0u16), 4 => 1u16..=sz.max_a],
        prop_oneof![2 => Just(0u16), 2 => 1u16..=8, 2 => 1u16..=sz.max_b],
        prop_oneof![2 => sz.min_c..=(sz.min_c + 40), 1 => sz.min_c..=sz.max_c],
        5u8..=30,
    );
    (
        any::<u64>(),
        zones,
        prop_oneof![2 => Just(7u16 * 24), 1 => 24u16..=720],
        pw,
        prop_oneof![1 => 4u8..=8, 3 => 8u8..=64],
        prop::collection::vec((any::<u16>(), 1u8..=80), 0..=3),
        any::<bool>(),
        prop::collection::vec(step_strategy(adversarial, wild_prune), 4..=sz.max_steps),
    )
        .prop_map(|(seed, (n_a, n_b, n_c, spare), sw_hours, pw, batch, init, init_sampled, steps)| Scenario {
            seed,
            n_a,
            n_b: if pw == PwCfg::Equal { 0 } else { n_b },
            n_c,
            spare,
            sw_hours,
            pw,
            batch,
            init,
            init_sampled,
            steps,
        })
}

// ------------------------------------------------------------------------------------------------
// time layout
// ------------------------------------------------------------------------------------------------

const HOUR: u64 = 3600;

pub struct Layout {
    pub sampling_window: Duration,
    pub pruning_window: Duration,
    pub spec: ChainSpec,
    pub n_a: u64,
    pub n_b: u64,
    pub total: u64,
    pub head0: u64,
    /// heights at the top kept back for the epilogue / honest phase
    pub reserve: u64,
    pub pw_shorter: bool,
}

#[derive(Clone, Copy, Debug, PartialEq, Eq)]
pub enum Zone {
    A,
    B,
    C,
}

pub fn layout(sc: &Scenario, reserve: u64) -> Layout {
    let sw = sc.sw_hours.clamp(24, 720) as u64 * HOUR;
    let pw = match sc.pw {
        PwCfg::Equal => sw,
        PwCfg::PlusHour => sw + HOUR,
        PwCfg::Longer => sw + 12 * HOUR,
        PwCfg::Shorter => sw - 12 * HOUR,
        PwCfg::Short => 6 * HOUR,
    };
    let t_old = sw.max(pw);
    let t_new = sw.min(pw);
    let gap = t_old - t_new;
    let n_a = sc.n_a as u64;
    let n_b = if gap == 0 { 0 } else { sc.n_b as u64 };
    let n_c = sc.n_c.max(2) as u64 + sc.spare as u64 + reserve;
    // "ago" of every header in milliseconds, oldest first
    let mut ago: Vec<u64> = Vec::new();
    for i in 0..n_a {
        ago.push((t_old + HOUR) * 1000 + (n_a - 1 - i) * 10_000);
    }
    if n_b > 0 {
        // centred in the gap, occupying at most its middle half
        let span_ms = (gap * 1000 / 2).min(n_b * 10_000);
        let dt = (span_ms / n_b).max(1);
        let first = t_new * 1000 + gap * 500 + span_ms / 2;
        for i in 0..n_b {
            ago.push(first - i * dt);
        }
    }
    {
        // oldest zone-C header 1 h inside the newer cutoff, newest at least 30 min in the past
        let room_ms = (t_new - HOUR - HOUR / 2) * 1000;
        let dt = (room_ms / n_c).clamp(1, 12_000);
        let first = (t_new - HOUR) * 1000;
        for i in 0..n_c {
            ago.push(first - i * dt);
        }
    }
    let total = ago.len();
    let mut spec = simple_chain_spec(sc.seed, 1, total, TimeBase::AgoSecs(ago[0].div_ceil(1000)), 1000);
    for i in 1..total {
        let d = ago[i - 1] - ago[i];
        spec.blocks[i].dt_ms = d.clamp(1, u32::MAX as u64) as u32;
    }
    Layout {
        sampling_window: Duration::from_secs(sw),
        pruning_window: Duration::from_secs(pw),
        spec,
        n_a,
        n_b,
        total: total as u64,
        head0: total as u64 - sc.spare as u64 - reserve,
        reserve,
        pw_shorter: pw < sw,
    }
}

impl Layout {
    pub fn zone(&self, h: u64) -> Zone {
        if h <= self.n_a {
            Zone::A
        } else if h <= self.n_a + self.n_b {
            Zone::B
        } else {
            Zone::C
        }
    }
    /// by the chain's own timestamps (with the layout's margins)
    pub fn in_sampling_window(&self, h: u64) -> bool {
        match self.zone(h) {
            Zone::A => false,
            Zone::B => self.pw_shorter,
            Zone::C => true,
        }
    }
    /// lowest height inside the sampling window
    pub fn window_low(&self) -> u64 {
        if self.pw_shorter { self.n_a + 1 } else { self.n_a + self.n_b + 1 }
    }
}

// ------------------------------------------------------------------------------------------------
// small range helpers (harness-side, independent of BlockRanges' own set algebra)
// ------------------------------------------------------------------------------------------------

pub type Rs = Vec<(u64, u64)>;

pub fn rs_of(r: &BlockRanges) -> Rs {
    r.as_ref().iter().map(|x| (*x.start(), *x.end())).collect()
}
pub fn rs_contains(r: &Rs, h: u64) -> bool {
    r.iter().any(|(a, b)| *a <= h && h <= *b)
}
pub fn rs_union(a: &Rs, b: &Rs) -> Rs {
    let mut v: Rs = a.iter().chain(b.iter()).copied().collect();
    v.sort();
    let mut out: Rs = Vec::new();
    for (s, e) in v {
        match out.last_mut() {
            Some((_, le)) if s <= le.saturating_add(1) => {
                if e > *le {
                    *le = e
                }
            }
            _ => out.push((s, e)),
        }
    }
    out
}
pub fn rs_fmt(r: &Rs) -> String {
    let v: Vec<String> = r.iter().map(|(a, b)| if a == b { format!("{a}") } else { format!("{a}-{b}") }).collect();
    format!("[{}]", v.join(","))
}
fn rs_heights(r: &Rs) -> impl Iterator<Item = u64> + '_ {
    r.iter().flat_map(|(a, b)| *a..=*b)
}

/// The C24 batch predicate (set based). `synced` = stored ∪ pruned when the batch was computed.
/// Returns the first violated clause.
pub fn c24_batch_predicate(from: u64, to: u64, stored: &Rs, pruned: &Rs, head: u64, limit: u64) -> Result<&'static str, String> {
    let synced = rs_union(stored, pruned);
    if from == 0 || from > to {
        return Err(format!("batch {from}..={to} is not a valid non-empty range"));
    }
    for h in from..=to {
        if rs_contains(stored, h) {
            return Err(format!("batch {from}..={to} contains stored height {h}"));
        }
        if rs_contains(pruned, h) {
            return Err(format!("batch {from}..={to} contains pruned height {h}"));
        }
    }
    if to - from + 1 > limit {
        return Err(format!("batch {from}..={to} longer than the batch size {limit}"));
    }
    if to > head {
        return Err(format!("batch {from}..={to} above the network head {head}"));
    }
    let kind;
    match synced.last() {
        None => {
            if from != 1 {
                return Err(format!("nothing synced but batch {from}..={to} does not start at 1"));
            }
            kind = "from-genesis";
        }
        Some(&(top_start, top_end)) => {
            if top_end < head && from == top_end + 1 {
                kind = "forward";
            } else if to + 1 == top_start {
                kind = "below-top";
            } else {
                return Err(format!(
                    "batch {from}..={to} is neither directly above the highest synced height {top_end} (head {head}) nor directly below the top synced range starting at {top_start}"
                ));
            }
        }
    }
    // "so that inserting it extends stored data"
    let mut br = BlockRanges::new();
    for (a, b) in &synced {
        br.insert_relaxed(*a..=*b).map_err(|e| format!("harness: {e}"))?;
    }
    if let Err(e) = br.check_insertion_constraints(from..=to) {
        return Err(format!("batch {from}..={to} does not meet the insertion constraints of synced {}: {e}", rs_fmt(&synced)));
    }
    Ok(kind)
}

// ------------------------------------------------------------------------------------------------
// simulation
// ------------------------------------------------------------------------------------------------

pub struct Pending {
    pub target: HeaderExTarget,
    pub amount: u64,
    pub responder: HeaderExResponder,
}

#[derive(Clone, Debug)]
pub struct Attempt {
    pub from: u64,
    pub to: u64,
    /// a fork header was delivered to this attempt
    pub tainted: bool,
    pub finished: bool,
    pub failed: Option<String>,
    pub cancelled: bool,
    /// (stored, pruned) when the attempt started
    pub state: (Rs, Rs),
}

pub struct Sim {
    pub lay: Layout,
    pub chain: Chain,
    pub batch: u64,
    pub store: Arc<InMemoryStore>,
    pub syncer: SyncerSim,
    pub handle: MockP2pHandle,
    pub events: EventSubscriber,
    pub pending: Vec<Pending>,
    pub net_head: u64,
    /// highest height `new_head` may announce (raised for the epilogue / honest phase)
    pub head_cap: u64,
    pub peers: u64,
    pub trusted: u64,
    pub wild_prune: bool,
    pub attempt: Option<Attempt>,
    pub prev_attempt: Option<Attempt>,
    pub repeat: u32,
    pub batches_finished: u64,
    pub batches_started: u64,
    pub prev_stored: Rs,
    /// legal prune of the lower edge of the top synced range while history below it is missing
    pub edge_pruned: bool,
    /// ... and the syncer evaluated `fetch_next_batch` afterwards
    pub edge_pruned_then_triggered: bool,
    pub fork_delivered: u64,
    pub log: Vec<String>,
    pub step_no: usize,
}

fn err_kind(k: ErrK) -> HeaderExErrKind {
    match k {
        ErrK::NotFound => HeaderExErrKind::NotFound,
        ErrK::Invalid => HeaderExErrKind::InvalidResponse,
        ErrK::Timeout => HeaderExErrKind::Timeout,
        ErrK::Closed => HeaderExErrKind::ConnectionClosed,
    }
}

impl Sim {
    pub fn note(&mut self, s: String) {
        if self.log.len() < 400 {
            self.log.push(format!("#{} {}", self.step_no, s));
        }
    }

    pub fn history(&self) -> String {
        let n = self.log.len();
        let tail: Vec<&str> = self.log[n.saturating_sub(40)..].iter().map(|s| s.as_str()).collect();
        tail.join(" | ")
    }

    fn header(&self, h: u64) -> &ExtendedHeader {
        &self.chain.headers[(h - 1) as usize]
    }

    /// Build everything and start the syncer. Must run inside the paused runtime.
    pub async fn start(sc: &Scenario, reserve: u64, obs: &mut Obs<'_>) -> Result<Sim, Failure> {
        let lay = layout(sc, reserve);
        let chain = build_chain(&lay.spec);
        let store = Arc::new(InMemoryStore::new());
        let head0 = lay.head0;

        // initial content: honest segments below the initial network head
        let mut init: Rs = Vec::new();
        if head0 > 1 {
            for (sel, len) in &sc.init {
                let s = 1 + pick(*sel, (head0 - 1) as usize) as u64;
                let e = (s + *len as u64 - 1).min(head0 - 1);
                init.push((s, e));
            }
        }
        let init = rs_union(&init, &Vec::new());
        for (s, e) in &init {
            let run: Vec<ExtendedHeader> = chain.headers[(*s - 1) as usize..*e as usize].to_vec();
            store
                .insert(run)
                .await
                .map_err(|e2| Failure::new("harness:init-insert", format!("initial insert {s}..={e} failed: {e2}")))?;
            if sc.init_sampled {
                for h in *s..=*e {
                    let _ = store.mark_as_sampled(h).await;
                }
            }
        }
        if !init.is_empty() {
            obs.label("init-nonempty-store");
        }

        let (syncer, handle, events) = hook::start(store.clone(), sc.batch.max(1) as u64, lay.sampling_window, lay.pruning_window)
            .map_err(|e| Failure::new("harness:syncer-start", format!("{e}")))?;

        let mut sim = Sim {
            lay,
            chain,
            batch: sc.batch.max(1) as u64,
            store,
            syncer,
            handle,
            events,
            pending: Vec::new(),
            net_head: head0,
            head_cap: 0,
            peers: 0,
            trusted: 0,
            wild_prune: false,
            attempt: None,
            prev_attempt: None,
            repeat: 0,
            batches_finished: 0,
            batches_started: 0,
            prev_stored: init.clone(),
            edge_pruned: false,
            edge_pruned_then_triggered: false,
            fork_delivered: 0,
            log: Vec::new(),
            step_no: 0,
        };
        sim.note(format!(
            "start: zones A=1..={} B..={} head0={} total={} batch={} sw={}h pw={:?} init={}",
            sim.lay.n_a,
            sim.lay.n_a + sim.lay.n_b,
            head0,
            sim.lay.total,
            sim.batch,
            sc.sw_hours,
            sc.pw,
            rs_fmt(&init)
        ));
        sim.head_cap = sim.lay.total - sim.lay.reserve;
        // a trusted peer is there from the start
        sim.connect(true);
        sim.settle(1500).await;
        Ok(sim)
    }

    pub fn connect(&mut self, trusted: bool) {
        if trusted {
            self.handle.announce_trusted_peer_connected();
            self.trusted += 1;
        } else {
            self.handle.announce_peer_connected();
        }
        self.peers += 1;
        self.note(format!("connect trusted={trusted}"));
    }

    pub fn disconnect(&mut self) {
        self.handle.announce_all_peers_disconnected();
        self.peers = 0;
        self.trusted = 0;
        self.note("disconnect".into());
    }

    fn drain_cmds(&mut self) -> usize {
        let mut n = 0;
        loop {
            match p2p_mock::try_next_cmd(&mut self.handle) {
                NextCmd::Cmd(MockedCmd::HeaderEx { target, amount, responder }) => {
                    n += 1;
                    self.note(format!("req {target:?} x{amount}"));
                    self.pending.push(Pending { target, amount, responder });
                }
                NextCmd::Cmd(MockedCmd::InitHeaderSub { head }) => {
                    n += 1;
                    self.note(format!("init-header-sub {}", head.height()));
                }
                NextCmd::Cmd(MockedCmd::Other(s)) => {
                    n += 1;
                    self.note(format!("other cmd {s}"));
                }
                NextCmd::Empty | NextCmd::Closed => break,
            }
        }
        n
    }

    /// Let `ms` of virtual time pass, then yield until the command queue is stable.
    pub async fn settle(&mut self, ms: u64) {
        tokio::time::sleep(Duration::from_millis(ms)).await;
        let mut quiet = 0;
        for _ in 0..64 {
            for _ in 0..8 {
                tokio::task::yield_now().await;
            }
            if self.drain_cmds() == 0 {
                quiet += 1;
                if quiet >= 2 {
                    break;
                }
            } else {
                quiet = 0;
            }
        }
        // requests whose requester went away (cancelled batch) are not answerable any more
        self.pending.retain(|p| !p.responder.is_closed());
    }

    fn honest_run(&self, origin: u64, amount: u64) -> Vec<ExtendedHeader> {
        let end = (origin + amount - 1).min(self.net_head);
        if origin == 0 || origin > end {
            return Vec::new();
        }
        self.chain.headers[(origin - 1) as usize..end as usize].to_vec()
    }

    fn fork_run(&self, fork_from: u64, origin: u64, amount: u64, salt: u8) -> Vec<ExtendedHeader> {
        // heights fork_from.. re-built with foreign keys, linked to the honest parent of fork_from
        let end = (origin + amount - 1).min(self.net_head);
        if origin > end {
            return Vec::new();
        }
        let fork_from = fork_from.clamp(1, origin);
        let all = build_fork(&self.chain, (fork_from - 1) as usize, (end - fork_from + 1) as usize, salt.max(1) as u64, true);
        all.into_iter().filter(|h| h.height() >= origin).collect()
    }

    /// Answer pending request `idx`. Only answers the real header-ex client could deliver are
    /// produced: non-empty runs of individually valid headers with the requested consecutive
    /// heights (honest chain or foreign-key fork), or header-ex errors.
    pub fn answer(&mut self, idx: usize, ans: &Ans, obs: &mut Obs<'_>) {
        let p = self.pending.remove(idx);
        let amount = p.amount;
        match p.target {
            HeaderExTarget::Head => match ans {
                Ans::Error(k) => {
                    obs.label("answer-head-error");
                    self.note(format!("head <- error {k:?}"));
                    p.responder.respond_err(err_kind(*k));
                }
                _ => {
                    obs.label("answer-head");
                    let h = self.header(self.net_head).clone();
                    self.note(format!("head <- {}", self.net_head));
                    p.responder.respond_ok(vec![h]);
                }
            },
            HeaderExTarget::Height(origin) => {
                let trunc = |v: &mut Vec<ExtendedHeader>, frac: u16| {
                    if v.len() >= 2 {
                        let keep = 1 + pick(frac, v.len() - 1);
                        v.truncate(keep);
                    }
                };
                let (mut run, what, forked) = match ans {
                    Ans::Honest => (self.honest_run(origin, amount), "honest", false),
                    Ans::Prefix { frac } => {
                        let mut v = self.honest_run(origin, amount);
                        trunc(&mut v, *frac);
                        (v, "prefix", false)
                    }
                    Ans::Error(_) => (Vec::new(), "error", false),
                    Ans::Fork { back, salt, frac } => {
                        let from = origin.saturating_sub(*back as u64).max(1);
                        let mut v = self.fork_run(from, origin, amount, *salt);
                        if let Some(f) = frac {
                            trunc(&mut v, *f);
                        }
                        (v, "fork", true)
                    }
                    Ans::HonestThenFork { at, salt } => {
                        let full = self.honest_run(origin, amount);
                        if full.len() >= 2 {
                            let keep = 1 + pick(*at, full.len() - 1);
                            let mut v = full[..keep].to_vec();
                            let f = self.fork_run(origin + keep as u64, origin + keep as u64, amount - keep as u64, *salt);
                            v.extend(f);
                            (v, "honest-then-fork", true)
                        } else {
                            (full, "honest", false)
                        }
                    }
                };
                // the header-ex client validates every header individually; keep only what it lets through
                if forked && run.iter().any(|h| h.validate().is_err()) {
                    obs.label("harness-fork-header-invalid");
                    run = self.honest_run(origin, amount);
                }
                let forked = forked && run.iter().any(|h| h != self.header(h.height()));
                if let Ans::Error(k) = ans {
                    obs.label("answer-error");
                    self.note(format!("{origin}x{amount} <- error {k:?}"));
                    p.responder.respond_err(err_kind(*k));
                } else if run.is_empty() {
                    // an honest peer has nothing for heights above its head
                    obs.label("answer-notfound");
                    self.note(format!("{origin}x{amount} <- notfound"));
                    p.responder.respond_err(HeaderExErrKind::NotFound);
                } else {
                    obs.label(&format!("answer-{what}"));
                    self.note(format!("{origin}x{amount} <- {what} {}", run.len()));
                    let delivered = p.responder.respond_ok(run);
                    if forked && delivered {
                        self.fork_delivered += 1;
                        if let Some(a) = self.attempt.as_mut() {
                            a.tainted = true;
                        }
                    }
                }
            }
            HeaderExTarget::Hash(_) | HeaderExTarget::None => {
                obs.label("answer-unexpected-target");
                p.responder.respond_err(HeaderExErrKind::NotFound);
            }
        }
    }

    pub async fn snapshot(&self) -> Result<(Rs, Rs, Rs), Failure> {
        let stored = self.store.get_stored_header_ranges().await.map_err(|e| Failure::new("harness:store", format!("{e}")))?;
        let pruned = self.store.get_pruned_ranges().await.map_err(|e| Failure::new("harness:store", format!("{e}")))?;
        let sampled = self.store.get_sampled_ranges().await.map_err(|e| Failure::new("harness:store", format!("{e}")))?;
        Ok((rs_of(&stored), rs_of(&pruned), rs_of(&sampled)))
    }

    /// Pruner model: may the real pruner remove stored height `h` now?
    fn legal_prune(&self, h: u64, stored: &Rs, pruned: &Rs, sampled: &Rs) -> bool {
        if !rs_contains(stored, h) {
            return false;
        }
        match self.lay.zone(h) {
            Zone::A => true,
            Zone::B if self.lay.pw_shorter => {
                let synced = rs_union(stored, pruned);
                let is_edge = synced.iter().any(|(a, b)| *a == h || *b == h);
                rs_contains(sampled, h) && !is_edge
            }
            _ => false,
        }
    }

    pub async fn prune(&mut self, sel: u16, pref: PrunePref, count: u8, legal_only: bool, obs: &mut Obs<'_>) -> Result<(), Failure> {
        for i in 0..count {
            let (stored, pruned, sampled) = self.snapshot().await?;
            let cands: Vec<u64> = rs_heights(&stored).filter(|h| !legal_only || self.legal_prune(*h, &stored, &pruned, &sampled)).collect();
            if cands.is_empty() {
                obs.label("prune-nothing");
                return Ok(());
            }
            let top_low = stored.last().map(|r| r.0).unwrap();
            let h = match pref {
                PrunePref::TopLowerEdge if cands.contains(&top_low) => top_low,
                PrunePref::TopLowerEdge if i > 0 => return Ok(()),
                _ => cands[pick(sel, cands.len())],
            };
            let legal = self.legal_prune(h, &stored, &pruned, &sampled);
            if !legal {
                self.wild_prune = true;
                obs.label("prune-illegal-for-real-pruner");
            } else {
                obs.label("prune-legal");
            }
            // is it the header that bounds further syncing, with history below it missing?
            let synced = rs_union(&stored, &pruned);
            let (top_s, _) = *synced.last().unwrap();
            if h == top_s && h > 1 && !rs_contains(&synced, h - 1) {
                if self.lay.in_sampling_window(h) {
                    obs.label("pruned-in-window-top-edge");
                } else if legal {
                    obs.label("pruned-window-edge");
                    self.edge_pruned = true;
                }
            }
            self.store.remove_height(h).await.map_err(|e| Failure::new("harness:remove-height", format!("{h}: {e}")))?;
            self.note(format!("prune {h} ({:?}{})", self.lay.zone(h), if legal { "" } else { ", wild" }));
        }
        Ok(())
    }

    pub async fn sample(&mut self, sel: u16, len: u8) -> Result<(), Failure> {
        let (stored, _, _) = self.snapshot().await?;
        let hs: Vec<u64> = rs_heights(&stored).collect();
        if hs.is_empty() {
            return Ok(());
        }
        let i = pick(sel, hs.len());
        for h in hs.iter().skip(i).take(len as usize) {
            let _ = self.store.mark_as_sampled(*h).await;
        }
        self.note(format!("sample {}+{}", hs[i], len));
        Ok(())
    }

    pub async fn sample_all(&mut self) -> Result<(), Failure> {
        let (stored, _, _) = self.snapshot().await?;
        for h in rs_heights(&stored) {
            let _ = self.store.mark_as_sampled(h).await;
        }
        Ok(())
    }

    /// Returns false when the chain has no further header.
    pub fn new_head(&mut self, adv: u8, obs: &mut Obs<'_>) -> bool {
        let nh = (self.net_head + adv.max(1) as u64).min(self.head_cap);
        if nh == self.net_head {
            obs.label("new-head-exhausted");
            return false;
        }
        self.net_head = nh;
        let delivered = self.peers > 0 && p2p_mock::announce_new_head(&self.handle, self.header(nh).clone());
        if delivered {
            obs.label("header-sub-announce");
            if self.edge_pruned {
                self.edge_pruned_then_triggered = true;
            }
        } else {
            obs.label("new-head-while-offline");
        }
        self.note(format!("new head {nh} delivered={delivered}"));
        true
    }

    /// Drain the node events and apply the per-request oracles (C24 batch predicate, C25 window
    /// rule, re-request rule), the safety oracle and the "worker alive" check.
    pub async fn observe(&mut self, obs: &mut Obs<'_>, prop: &str) -> Result<(), Failure> {
        let info = match self.syncer.info().await {
            Ok(i) => i,
            Err(e) => {
                let p = lv_common::take_global_panic().unwrap_or_default();
                return obs.fail(
                    &format!("{prop}:syncer-worker-died"),
                    format!("Syncer::info failed: {e}; last panic: {p}; history: {}", self.history()),
                );
            }
        };
        let (stored, pruned, _) = self.snapshot().await?;
        let mut evs = Vec::new();
        while let Ok(ev) = self.events.try_recv() {
            evs.push(ev.event);
        }
        let n_started = evs.iter().filter(|e| matches!(e, NodeEvent::FetchingHeadersStarted { .. })).count();
        let mut seen_started = 0;
        for ev in evs {
            match ev {
                NodeEvent::FetchingHeadersStarted { from_height, to_height } => {
                    seen_started += 1;
                    self.batches_started += 1;
                    self.note(format!("batch-start {from_height}..={to_height}"));
                    // state-dependent clauses are only decidable against the state the batch was
                    // computed in, which is the observed one for the last start of a step
                    let decidable = seen_started == n_started;
                    if !decidable {
                        obs.label("batch-start-undecidable");
                    }
                    self.on_batch_started(from_height, to_height, &stored, &pruned, info.subjective_head, decidable, obs, prop)?;
                }
                NodeEvent::FetchingHeadersFinished { from_height, to_height, .. } => {
                    self.batches_finished += 1;
                    if let Some(a) = self.attempt.as_mut() {
                        if a.from == from_height && a.to == to_height {
                            a.finished = true;
                        }
                    }
                    self.note(format!("batch-finished {from_height}..={to_height}"));
                }
                NodeEvent::FetchingHeadersFailed { from_height, to_height, error, .. } => {
                    obs.label("batch-failed");
                    let tainted = self.attempt.as_ref().is_some_and(|a| a.tainted);
                    if tainted {
                        obs.label("fork-batch-rejected");
                    }
                    if let Some(a) = self.attempt.as_mut() {
                        if a.from == from_height && a.to == to_height {
                            a.failed = Some(error.clone());
                            // store-insert failures are followed by Finished; p2p failures are not
                            a.finished = true;
                        }
                    }
                    self.note(format!("batch-failed {from_height}..={to_height}: {error}"));
                }
                NodeEvent::FatalSyncerError { error } => {
                    return obs.fail(&format!("{prop}:fatal-syncer-error"), format!("{error}; history: {}", self.history()));
                }
                NodeEvent::AddedHeaderFromHeaderSub { height } => {
                    obs.label("header-sub-appended");
                    self.note(format!("header-sub appended {height}"));
                }
                NodeEvent::FetchingHeadHeaderFinished { height, .. } => {
                    obs.label("head-fetched");
                    self.note(format!("head fetched {height}"));
                    if self.edge_pruned {
                        self.edge_pruned_then_triggered = true;
                    }
                }
                _ => {}
            }
        }

        // every pending sub-request belongs to the ongoing batch
        for p in &self.pending {
            if let HeaderExTarget::Height(o) = p.target {
                let ok = self.attempt.as_ref().is_some_and(|a| !a.finished && a.from <= o && o + p.amount - 1 <= a.to);
                obs.check(ok && p.amount >= 1 && p.amount <= 64, &format!("{prop}:sub-request-outside-batch"), || {
                    format!("pending request origin {o} amount {} vs ongoing batch {:?}; history: {}", p.amount, self.attempt, self.history())
                })?;
            }
        }

        // safety: whatever got stored since the last observation is the honest chain's header
        for h in rs_heights(&stored) {
            if rs_contains(&self.prev_stored, h) {
                continue;
            }
            let got = self.store.get_by_height(h).await.map_err(|e| Failure::new("harness:store", format!("get {h}: {e}")))?;
            let honest = h >= 1 && h <= self.lay.total && got == *self.header(h);
            obs.check(honest, &format!("{prop}:stored-header-not-on-honest-chain"), || {
                format!("height {h}: stored hash {} is not the honest chain's header; history: {}", got.hash(), self.history())
            })?;
            obs.check(h <= self.net_head, &format!("{prop}:stored-above-network-head"), || format!("height {h} > network head {}", self.net_head))?;
        }
        self.prev_stored = stored;
        Ok(())
    }

    #[allow(clippy::too_many_arguments)]
    fn on_batch_started(
        &mut self,
        from: u64,
        to: u64,
        stored: &Rs,
        pruned: &Rs,
        head: u64,
        decidable: bool,
        obs: &mut Obs<'_>,
        prop: &str,
    ) -> Result<(), Failure> {
        // bookkeeping of attempts
        if let Some(a) = self.attempt.take() {
            let mut a = a;
            if !a.finished {
                a.cancelled = true;
            }
            self.prev_attempt = Some(a);
        }
        if self.edge_pruned {
            self.edge_pruned_then_triggered = true;
        }
        obs.eval(None);
        if decidable {
            match c24_batch_predicate(from, to, stored, pruned, head, self.batch) {
                Ok(kind) => obs.label(&format!("batch-{kind}")),
                Err(why) => {
                    obs.fail(
                        &format!("{prop}:c24-batch-predicate"),
                        format!("{why}; stored {} pruned {} head {head}; history: {}", rs_fmt(stored), rs_fmt(pruned), self.history()),
                    )?;
                }
            }
            // C25: a batch below a synced header needs that header inside the sampling window
            let e1 = to + 1;
            if rs_contains(pruned, e1) {
                if !self.lay.in_sampling_window(e1) {
                    obs.label("request-below-pruned-out-of-window");
                    obs.fail(
                        &format!("{prop}:request-below-pruned-window-edge"),
                        format!(
                            "batch {from}..={to} requested below height {e1}, which was pruned and is older than the sampling window (window starts at height {}); stored {} pruned {}; history: {}",
                            self.lay.window_low(),
                            rs_fmt(stored),
                            rs_fmt(pruned),
                            self.history()
                        ),
                    )?;
                } else {
                    obs.label("request-below-pruned-in-window");
                }
            } else if rs_contains(stored, e1) {
                if !self.lay.in_sampling_window(e1) {
                    obs.fail(
                        &format!("{prop}:request-below-stored-out-of-window-header"),
                        format!(
                            "batch {from}..={to} requested below stored height {e1}, which is older than the sampling window (window starts at height {}); stored {} pruned {}; history: {}",
                            self.lay.window_low(),
                            rs_fmt(stored),
                            rs_fmt(pruned),
                            self.history()
                        ),
                    )?;
                } else {
                    obs.label("request-below-stored-in-window");
                }
            }
            // no identical batch more than 3 times without an intervening store change (only
            // honestly served, uncancelled attempts count; not after pruning the real pruner
            // would not do)
            let same = self.prev_attempt.as_ref().is_some_and(|p| {
                p.from == from && p.to == to && p.finished && !p.cancelled && !p.tainted && p.state.0 == *stored && p.state.1 == *pruned
            });
            if same && !self.wild_prune {
                self.repeat += 1;
                obs.label("identical-batch-repeat");
                if self.repeat >= 3 {
                    obs.fail(
                        &format!("{prop}:identical-batch-rerequested"),
                        format!(
                            "batch {from}..={to} requested {} times in a row although each attempt was served honestly and the store did not change (last error: {:?}); stored {} pruned {}; history: {}",
                            self.repeat + 1,
                            self.prev_attempt.as_ref().and_then(|p| p.failed.clone()),
                            rs_fmt(stored),
                            rs_fmt(pruned),
                            self.history()
                        ),
                    )?;
                }
            } else {
                self.repeat = 0;
            }
        }
        self.attempt = Some(Attempt {
            from,
            to,
            tainted: false,
            finished: false,
            failed: None,
            cancelled: false,
            state: (stored.clone(), pruned.clone()),
        });
        Ok(())
    }

    /// Answer honestly until `n` more batches finished or nothing is pending.
    pub async fn serve_batches(&mut self, n: u64, obs: &mut Obs<'_>, prop: &str) -> Result<u64, Failure> {
        let target = self.batches_finished + n;
        let mut answered = 0u64;
        let mut guard = 0;
        while self.batches_finished < target && !self.pending.is_empty() && guard < 4096 {
            guard += 1;
            self.answer(0, &Ans::Honest, obs);
            answered += 1;
            self.settle(50).await;
            self.observe(obs, prop).await?;
        }
        Ok(answered)
    }

    /// Serve the ongoing batch completely from one foreign-key fork.
    pub async fn fork_batch(&mut self, back: u8, salt: u8, obs: &mut Obs<'_>, prop: &str) -> Result<(), Failure> {
        let Some((from, _to)) = self.attempt.as_ref().filter(|a| !a.finished).map(|a| (a.from, a.to)) else {
            obs.label("fork-batch-no-ongoing-batch");
            return Ok(());
        };
        let target = self.batches_finished + 1;
        let mut guard = 0;
        while self.batches_finished < target && guard < 256 {
            guard += 1;
            let Some(i) = self.pending.iter().position(|p| matches!(p.target, HeaderExTarget::Height(_))) else {
                break;
            };
            let HeaderExTarget::Height(origin) = self.pending[i].target else { unreachable!() };
            // same fork for every sub-request: it starts `back` below the batch's first height
            let b = (origin - from.min(origin)) + back as u64;
            let ans = Ans::Fork { back: b.min(255) as u8, salt, frac: None };
            self.answer(i, &ans, obs);
            self.settle(50).await;
            self.observe(obs, prop).await?;
        }
        obs.label("fork-batch-served");
        Ok(())
    }

    pub async fn step(&mut self, st: &Step, obs: &mut Obs<'_>, prop: &str) -> Result<(), Failure> {
        self.step_no += 1;
        match st {
            Step::Answer { sel, ans } => {
                if self.pending.is_empty() {
                    obs.label("answer-nothing-pending");
                } else {
                    let i = pick(*sel, self.pending.len());
                    self.answer(i, ans, obs);
                }
            }
            Step::ServeBatches { n } => {
                self.serve_batches(*n as u64, obs, prop).await?;
            }
            Step::ForkBatch { back, salt } => {
                self.fork_batch(*back, *salt, obs, prop).await?;
            }
            Step::Prune { sel, pref, count, legal_only } => {
                self.prune(*sel, *pref, *count, *legal_only, obs).await?;
            }
            Step::Sample { sel, len } => {
                self.sample(*sel, *len).await?;
            }
            Step::NewHead { adv } => {
                self.new_head(*adv, obs);
            }
            Step::Disconnect => {
                if self.peers > 0 {
                    obs.label("disconnect");
                }
                self.disconnect();
            }
            Step::Connect { trusted } => {
                if self.peers == 0 {
                    obs.label("reconnect");
                }
                self.connect(*trusted);
            }
            Step::Wait { secs } => {
                self.settle(*secs as u64 * 1000).await;
            }
        }
        self.settle(1500).await;
        self.observe(obs, prop).await
    }

    /// Heights inside the sampling window up to the network head that are neither stored nor
    /// pruned (a pruned height was stored before: only `remove_height` adds to the pruned set).
    pub async fn missing_in_window(&self) -> Result<Vec<u64>, Failure> {
        let (stored, pruned, _) = self.snapshot().await?;
        let synced = rs_union(&stored, &pruned);
        Ok((self.lay.window_low()..=self.net_head).filter(|h| !rs_contains(&synced, *h)).collect())
    }

    pub async fn shutdown(self) {
        self.syncer.stop();
        // let the worker observe the cancellation
        tokio::time::sleep(Duration::from_millis(10)).await;
        for _ in 0..4 {
            tokio::task::yield_now().await;
        }
    }
}

/// Run `fut` on a fresh paused current-thread runtime.
pub fn run_paused<F: std::future::Future>(fut: F) -> F::Output {
    let rt = tokio::runtime::Builder::new_current_thread().enable_all().start_paused(true).build().expect("runtime");
    rt.block_on(fut)
}

#[allow(dead_code)]
pub fn distinct_heights(v: &[u64]) -> usize {
    v.iter().collect::<BTreeSet<_>>().len()
}
