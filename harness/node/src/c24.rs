//! C24 — Syncer fetches missing, insertable heights nearest the head first.
//!
//! This module checks the pure function `syncer::calculate_range_to_fetch` (through the hook)
//! exhaustively over synced ⊆ {1..12} x head 1..=13 x limit 0..=14 and on random u64-wide inputs.
//! The batch predicate is exported (`check_batch`, `check_batch_ranges`) so that the syncer
//! simulations (C25/C38) can feed every batch the real `Syncer` requests through the same oracle.
use lumina_node::block_ranges::{BlockRange, BlockRanges};
use lumina_node::verif::syncer as hk;
use lv_common::prelude::*;
use lv_gen::ranges::{HMAX, ISet, RangesSpec, build_ranges, count_strategy, ranges_spec_strategy};

use crate::c17::{Val, build_from_model, resolve, to_iset, val_strategy};
use crate::c18::{Expect, ref_insertion};

/// How an accepted batch is anchored.
#[derive(Clone, Copy, Debug, PartialEq, Eq)]
pub enum BatchKind {
    /// empty range: nothing requested
    Empty,
    /// synced is empty and the batch starts at height 1
    FromGenesis,
    /// behind the head: the batch starts directly above the highest synced height
    AboveSyncedHead,
    /// the batch ends directly below the highest synced range
    BelowTopRange,
}

#[derive(Clone, Copy, Debug)]
pub struct BatchInfo {
    pub kind: BatchKind,
    pub len: u64,
    /// the batch is adjacent to synced heights on (left, right)
    pub flags: (bool, bool),
    /// `head < max(synced)`: the subjective head is below already synced heights (see note in `check_batch`)
    pub head_below_synced: bool,
}

/// The property's constraints on one requested batch, evaluated on sets.
///
/// `synced` = stored ∪ pruned heights, `head` = the syncer's (subjective) network head, `limit` = batch size.
/// Returns `Err(Failure)` with a root-cause signature `C24:…` when a constraint is broken.
///
/// Interpretation: when `head < max(synced)` (the subjective head lags behind heights the node already
/// synced and verified) the "not above the network head" bound is taken against `max(head, max(synced))`:
/// heights below an already synced height are certainly not above the real network head.
pub fn check_batch(synced: &ISet, head: u64, limit: u64, batch: &BlockRange) -> Result<BatchInfo, Failure> {
    let (a, b) = (*batch.start(), *batch.end());
    let head_below_synced = synced.max().is_some_and(|m| (head as u128) < m);
    if a > b {
        return Ok(BatchInfo { kind: BatchKind::Empty, len: 0, flags: (false, false), head_below_synced });
    }
    let ctx = || format!("synced={:?} head={head} limit={limit} batch={a}..={b}", synced.0);
    if a == 0 {
        return Err(Failure::new("C24:batch-invalid", format!("batch contains height 0; {}", ctx())));
    }
    let (a128, b128) = (a as u128, b as u128);
    let len = b128 - a128 + 1;
    if !synced.inter(&ISet::single(a128, b128)).is_empty() {
        return Err(Failure::new("C24:batch-overlaps-synced", format!("batch contains stored/pruned heights; {}", ctx())));
    }
    if len > limit as u128 {
        return Err(Failure::new("C24:batch-exceeds-limit", format!("batch has {len} heights; {}", ctx())));
    }
    let bound = (head as u128).max(synced.max().unwrap_or(0));
    if b128 > bound {
        return Err(Failure::new("C24:batch-above-head", format!("batch reaches above the network head; {}", ctx())));
    }
    let kind = match (synced.max(), synced.0.last()) {
        (None, _) if a == 1 => BatchKind::FromGenesis,
        (Some(m), _) if m < head as u128 && a128 == m + 1 => BatchKind::AboveSyncedHead,
        (Some(_), Some(&(top_start, _))) if b128 + 1 == top_start => BatchKind::BelowTopRange,
        _ => {
            return Err(Failure::new(
                "C24:batch-not-anchored",
                format!("batch is neither directly above the highest synced height (while behind the head) nor directly below the highest synced range (nor starts at 1 on an empty store); {}", ctx()),
            ));
        }
    };
    let flags = match ref_insertion(synced, a, b) {
        Expect::Ok(p, n) => (p, n),
        other => {
            return Err(Failure::new("C24:batch-not-insertable", format!("inserting the batch would be refused ({other:?}); {}", ctx())));
        }
    };
    Ok(BatchInfo { kind, len: len as u64, flags, head_below_synced })
}

/// Same, for callers holding lumina `BlockRanges` (stored + pruned already united); additionally asks
/// the real `check_insertion_constraints`.
pub fn check_batch_ranges(synced: &BlockRanges, head: u64, limit: u64, batch: &BlockRange) -> Result<BatchInfo, Failure> {
    let s = ISet::normalise(to_iset(synced).0);
    let info = check_batch(&s, head, limit, batch)?;
    if info.kind != BatchKind::Empty {
        if let Err(e) = synced.check_insertion_constraints(batch) {
            return Err(Failure::new(
                "C24:batch-not-insertable",
                format!("check_insertion_constraints refuses the batch: {e}; synced={:?} head={head} limit={limit} batch={batch:?}", s.0),
            ));
        }
    }
    Ok(info)
}

/// number of missing heights the function could have chosen from (0 = nothing to fetch)
fn candidate_gap(s: &ISet, head: u64) -> u128 {
    match s.0.last() {
        None => head as u128,
        Some(&(top_start, top_end)) => {
            if top_end < head as u128 {
                head as u128 - top_end
            } else {
                let pen = if s.0.len() >= 2 { s.0[s.0.len() - 2].1 } else { 0 };
                top_start - 1 - pen
            }
        }
    }
}

/// One evaluation: call the hooked function, apply the predicate, classify.
fn eval_one(obs: &mut Obs, r: &BlockRanges, s: &ISet, head: u64, limit: u64, digest: u64) -> Result<(), Failure> {
    let batch = hk::calculate_range_to_fetch(head, r.as_ref(), limit);
    let info = match check_batch_ranges(r, head, limit, &batch) {
        Ok(i) => i,
        Err(f) => {
            obs.eval(Some(digest));
            obs.fail(&f.sig, f.msg)?;
            return Ok(());
        }
    };
    obs.eval((info.kind != BatchKind::Empty).then_some(digest));
    let gap = candidate_gap(s, head);
    match info.kind {
        BatchKind::Empty => {
            // progress is recorded, not asserted (the property does not state it; C38 owns convergence)
            if limit == 0 {
                obs.label("empty-limit-zero");
            } else if gap == 0 {
                obs.label("empty-nothing-missing");
            } else {
                obs.label("empty-while-missing");
                obs.note("observation (not asserted): calculate_range_to_fetch returned an empty batch although limit > 0 and heights are missing (see samples labelled empty-while-missing)");
                obs.sample("empty-while-missing", json!({"synced": format!("{:?}", s.0), "head": head, "limit": limit}));
            }
        }
        BatchKind::FromGenesis => obs.label("from-genesis"),
        BatchKind::AboveSyncedHead => obs.label("above-synced-head"),
        BatchKind::BelowTopRange => obs.label("below-top-range"),
    }
    if info.kind != BatchKind::Empty {
        if (info.len as u128) < gap && info.len == limit {
            obs.label("limit-truncates");
        }
        if info.len as u128 == gap {
            obs.label("takes-whole-gap");
        }
        if info.flags == (true, true) {
            obs.label("bridges-gap-fully");
        }
        if info.head_below_synced {
            obs.label("head-below-synced");
            if *batch.end() > head {
                obs.label("batch-above-subjective-head-but-below-synced");
            }
        }
        if *batch.end() == u64::MAX || head == u64::MAX {
            obs.label("u64-max-edge");
        }
        if limit as u128 >= 1 << 63 {
            obs.label("huge-limit");
        }
    }
    Ok(())
}

#[derive(Clone, Debug, Serialize, Deserialize)]
pub enum HeadSel {
    Val(Val),
    /// max(synced) + d (saturating)
    TopPlus(u64),
}

#[derive(Clone, Debug, Serialize, Deserialize)]
pub enum LimitSel {
    Abs(u64),
    /// size of the gap the function chooses from, plus d
    GapRel(i8),
}

#[derive(Clone, Debug, Serialize, Deserialize)]
pub struct Case {
    pub synced: RangesSpec,
    pub queries: Vec<(HeadSel, LimitSel)>,
}

fn case_strategy() -> impl Strategy<Value = Case> {
    let head = prop_oneof![
        3 => val_strategy(false).prop_map(HeadSel::Val),
        3 => prop_oneof![Just(0u64), Just(1), Just(2), 0u64..600, count_strategy()].prop_map(HeadSel::TopPlus),
    ];
    let limit = prop_oneof![3 => count_strategy().prop_map(LimitSel::Abs), 2 => (-2i8..=2).prop_map(LimitSel::GapRel)];
    (ranges_spec_strategy(6), prop::collection::vec((head, limit), 6..=6)).prop_map(|(synced, queries)| Case { synced, queries })
}

pub fn run(ctx: &mut Ctx) {
    ctx.assume("synced = stored ∪ pruned reaches the function as one canonical sorted list (as Worker::fetch_next_batch builds it); head >= 1");
    ctx.assume("when head < max(synced) the head bound is taken against max(head, max(synced)) (heights below an already synced height are not above the real network head)");
    ctx.assume("progress (non-empty batch while heights are missing) is recorded, not asserted; fetch_next_batch's real batches are fed to the same predicate by the syncer simulations");
    ctx.essential(&["from-genesis", "above-synced-head", "below-top-range", "limit-truncates", "bridges-gap-fully", "u64-max-edge", "empty-nothing-missing"]);

    ctx.enumerate(
        "small-universe",
        "every synced set ⊆ {1..12} (4096 items) x head in 1..=13 x limit in 0..=14 on calculate_range_to_fetch: batch ∩ synced = ∅, |batch| <= limit, max <= head, anchored (above highest synced when behind / from 1 when empty / directly below the top range), insertable by the set-based reference and by check_insertion_constraints. Non-trivial = non-empty batch; distinct by (synced, head, limit)",
        true,
        (0u16..4096).collect::<Vec<_>>(),
        |idx, obs| {
            let m = (*idx as u64) << 1;
            let s = ISet::from_mask(m);
            let r = build_from_model(&s);
            for head in 1..=13u64 {
                for limit in 0..=14u64 {
                    eval_one(obs, &r, &s, head, limit, (m << 16) | (head << 8) | limit)?;
                }
            }
            Ok(())
        },
    );

    let cases = ctx.tier.pick(500_000, 2_000_000);
    ctx.proptest(
        "random-u64",
        "random canonical synced lists (<=6 runs, u64-wide, anchored at 1 or at u64::MAX) x 6 (head, limit) queries: head boundary-biased / edges of synced +-3 / max(synced)+d, limit boundary-biased (0,1,512,2^63,u64::MAX) or the chosen gap's size +-2. Non-trivial = non-empty batch; distinct by (synced, head, limit)",
        cases,
        case_strategy,
        |case, obs| {
            let s = build_ranges(&case.synced);
            let r = build_from_model(&s);
            let ds = digest_of(&s.0);
            for (h, l) in &case.queries {
                let head = match h {
                    HeadSel::Val(v) => resolve(v, &s, 1),
                    HeadSel::TopPlus(d) => ((s.max().unwrap_or(0) + *d as u128).min(HMAX) as u64).max(1),
                };
                let limit = match l {
                    LimitSel::Abs(x) => *x,
                    LimitSel::GapRel(d) => (candidate_gap(&s, head) as i128 + *d as i128).clamp(0, HMAX as i128) as u64,
                };
                eval_one(obs, &r, &s, head, limit, ds ^ head.rotate_left(19) ^ limit.rotate_left(41))?;
            }
            Ok(())
        },
    );
}
