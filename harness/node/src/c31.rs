//! C31 — Network head selection follows the best-head rule.
//!
//! `ClientSim` (see hex_client_sim.rs): the real header-ex client handler, a recording request sender and the
//! real peer tracker. A case is a population of peers, up to four head callers that join / are dropped at
//! generated points, and a few *rounds*; in every round each peer that was actually asked answers as the
//! recipe says, in the recipe's order. The oracle is evaluated at the quiescent point after the last answer
//! of a round.
use std::collections::HashMap;
use std::sync::atomic::Ordering;

use celestia_proto::p2p::pb::StatusCode;
use celestia_types::ExtendedHeader;
use celestia_types::hash::Hash;
use lv_common::prelude::*;
use tokio::sync::oneshot::error::TryRecvError;

use crate::hex_client_sim::*;

const MAX_PEERS: usize = 15;
const HEIGHTS: usize = 5;
const MAX_HEAD_PEERS: usize = 10;

#[derive(Clone, Debug, Serialize, Deserialize)]
pub enum Ans {
    /// one valid header: height index, variant (0 = chain, 1.. = other valid header of the same height)
    Valid { h: u8, v: u8 },
    /// one header that fails validation
    Invalid { h: u8, bad_sig: bool },
    /// two valid headers
    Two { h: u8 },
    NotFound,
    InvalidStatus,
    /// outbound failure
    Fail(u8),
}

#[derive(Clone, Debug, Serialize, Deserialize)]
pub struct CallerSpec {
    /// the caller asks for the head in this round ...
    pub join_round: u8,
    /// ... at this position (0 = before the round is scheduled, k = before the k-th answer is delivered,
    /// beyond the number of answers = after the round)
    pub join_at: u8,
    /// the caller drops its receiver at (round, position)
    pub drop: Option<(u8, u8)>,
}

#[derive(Clone, Debug, Serialize, Deserialize)]
pub enum PeerOp {
    Connect(u16),
    Disconnect(u16),
    Trust(u16, bool),
}

#[derive(Clone, Debug, Serialize, Deserialize)]
pub struct Round {
    /// applied before the round
    pub peer_ops: Vec<PeerOp>,
    /// answer of peer i (if it is asked)
    pub answers: Vec<Ans>,
    /// delivery order selectors
    pub order: Vec<u16>,
}

#[derive(Clone, Debug, Serialize, Deserialize)]
pub struct Case {
    pub seed: u64,
    pub peers: Vec<PeerSpec>,
    pub callers: Vec<CallerSpec>,
    pub rounds: Vec<Round>,
}

fn ans_valid() -> impl Strategy<Value = Ans> {
    // few heights x few variants so that 0, 1, 2, 3.. peers agree at several heights
    (0u8..HEIGHTS as u8, prop_oneof![3 => Just(0u8), 2 => Just(1u8), 1 => Just(2u8)]).prop_map(|(h, v)| Ans::Valid { h, v })
}

fn ans_bad() -> impl Strategy<Value = Ans> {
    prop_oneof![
        2 => (0u8..HEIGHTS as u8, any::<bool>()).prop_map(|(h, bad_sig)| Ans::Invalid { h, bad_sig }),
        2 => (0u8..HEIGHTS as u8 - 1).prop_map(|h| Ans::Two { h }),
        1 => Just(Ans::NotFound),
        1 => Just(Ans::InvalidStatus),
        2 => (0u8..5).prop_map(Ans::Fail),
    ]
}

fn round_strategy() -> impl Strategy<Value = Round> {
    let answers = prop_oneof![
        6 => prop::collection::vec(prop_oneof![7 => ans_valid(), 3 => ans_bad()], MAX_PEERS),
        2 => prop::collection::vec(prop_oneof![1 => ans_valid(), 8 => ans_bad()], MAX_PEERS),
        2 => prop::collection::vec(ans_bad(), MAX_PEERS),
    ];
    let op = prop_oneof![
        any::<u16>().prop_map(PeerOp::Connect),
        any::<u16>().prop_map(PeerOp::Disconnect),
        (any::<u16>(), any::<bool>()).prop_map(|(s, t)| PeerOp::Trust(s, t)),
    ];
    (prop::collection::vec(op, 0..3), answers, prop::collection::vec(any::<u16>(), MAX_HEAD_PEERS)).prop_map(
        |(peer_ops, answers, order)| Round {
            peer_ops,
            answers,
            order,
        },
    )
}

fn case_strategy(max_rounds: usize) -> impl Strategy<Value = Case> {
    let peer = (prop::bool::weighted(0.7), prop::bool::weighted(0.8), prop::bool::weighted(0.3)).prop_map(|(trusted, connected, archival)| PeerSpec {
        trusted,
        connected,
        archival,
    });
    let caller = (
        prop_oneof![3 => Just(0u8), 1 => 0u8..3],
        prop_oneof![3 => Just(0u8), 2 => 0u8..12],
        prop::option::weighted(0.3, (0u8..3, 0u8..12)),
    )
        .prop_map(|(join_round, join_at, drop)| CallerSpec { join_round, join_at, drop });
    (
        any::<u64>(),
        prop_oneof![4 => prop::collection::vec(peer.clone(), 1..=10), 1 => prop::collection::vec(peer, 11..=MAX_PEERS)],
        prop::collection::vec(caller, 1..=4),
        prop::collection::vec(round_strategy(), 1..=max_rounds),
    )
        .prop_map(|(seed, peers, callers, rounds)| Case { seed, peers, callers, rounds })
}

struct Caller {
    rx: Option<SimAnswerReceiver>,
    joined: bool,
    dropped: bool,
    /// Some(round) once an answer was read from the channel
    answered_in: Option<usize>,
}

/// The best-head rule of the statement, as a predicate on the delivered header.
fn rule_violation(valid: &[ExtendedHeader], got: &ExtendedHeader) -> Option<String> {
    let mut count: HashMap<Hash, usize> = HashMap::new();
    for h in valid {
        *count.entry(h.hash()).or_default() += 1;
    }
    if !valid.iter().any(|h| h.hash() == got.hash() && h.height() == got.height()) {
        return Some(format!("answer (height {}, hash {}) is none of the valid headers reported in this round", got.height(), got.hash()));
    }
    let agreed_max = valid.iter().filter(|h| count[&h.hash()] >= 2).map(|h| h.height()).max();
    match agreed_max {
        Some(m) => {
            if count[&got.hash()] < 2 || got.height() != m {
                return Some(format!(
                    "answer height {} reported by {} peer(s); but height {} is the highest reported by >= 2 peers",
                    got.height(),
                    count[&got.hash()],
                    m
                ));
            }
        }
        None => {
            let m = valid.iter().map(|h| h.height()).max().unwrap();
            if got.height() != m {
                return Some(format!("no header has two reporters; answer height {} but highest reported is {}", got.height(), m));
            }
        }
    }
    None
}

fn run_case(case: &Case, obs: &mut Obs) -> Result<(), Failure> {
    let rt = runtime();
    rt.block_on(async {
        let mut pool = HeaderPool::new(case.seed, 10, HEIGHTS + 1)?;
        let mut d = Driver::new(&case.peers);
        let np = case.peers.len();
        let mut callers: Vec<Caller> = case
            .callers
            .iter()
            .map(|_| Caller {
                rx: None,
                joined: false,
                dropped: false,
                answered_in: None,
            })
            .collect();
        if case.peers.iter().any(|p| p.connected && !p.trusted) {
            obs.label("untrusted-connected-peer-present");
        }
        if case.peers.iter().any(|p| !p.connected && p.trusted) {
            obs.label("disconnected-trusted-peer-present");
        }

        for (r, round) in case.rounds.iter().enumerate() {
            for op in &round.peer_ops {
                match op {
                    PeerOp::Connect(s) => {
                        let i = pick(*s, np);
                        d.sim.add_connection(&d.peers[i].clone(), i);
                    }
                    PeerOp::Disconnect(s) => {
                        let i = pick(*s, np);
                        d.sim.remove_connection(&d.peers[i].clone(), i);
                    }
                    PeerOp::Trust(s, t) => {
                        let i = pick(*s, np);
                        d.sim.set_trusted(&d.peers[i].clone(), *t);
                    }
                }
            }

            // joins and drops scheduled for (round r, position at); `upto` = apply everything still due in r
            let apply_events = |d: &mut Driver, callers: &mut Vec<Caller>, obs: &mut Obs, at: u8, upto: bool| {
                for (c, spec) in case.callers.iter().enumerate() {
                    let due = |(rr, aa): (u8, u8)| rr as usize == r && (aa == at || (upto && aa >= at));
                    if !callers[c].joined && due((spec.join_round, spec.join_at)) {
                        callers[c].joined = true;
                        callers[c].rx = Some(d.sim.send_request(head_request()));
                        if at > 0 {
                            obs.label("caller-joined-while-round-in-flight");
                        }
                    }
                    if let Some(dr) = spec.drop {
                        if callers[c].joined && !callers[c].dropped && callers[c].answered_in.is_none() && due(dr) {
                            callers[c].dropped = true;
                            callers[c].rx = None;
                            obs.label("caller-dropped-before-answer");
                        }
                    }
                }
            };

            apply_events(&mut d, &mut callers, obs, 0, false);
            let waiting_at_schedule = callers.iter().filter(|c| c.joined && !c.dropped && c.answered_in.is_none()).count();
            let eligible: Vec<usize> = (0..np).filter(|&i| { let s = d.state(i); s.connected && s.trusted }).collect();

            d.run_for(TICK).await;
            let sends = d.take_sends();

            // ---- where the round was sent
            let mut asked: Vec<usize> = Vec::new();
            for s in &sends {
                obs.check(s.request == head_request(), "C31:unexpected-request", || format!("round {r}: non-head request sent: {:?}", s.request))?;
                let Some(i) = d.peer_index(&s.peer) else {
                    return obs.fail("C31:sent-to-unknown-peer", format!("round {r}: head request sent to unknown peer {}", s.peer));
                };
                let st = d.state(i);
                obs.check(st.connected && st.trusted, "C31:head-request-to-ineligible-peer", || {
                    format!("round {r}: head request sent to peer #{i} with state {st:?} (must be connected and trusted)")
                })?;
                obs.check(!asked.contains(&i), "C31:peer-asked-twice", || format!("round {r}: peer #{i} asked twice in one round"))?;
                asked.push(i);
            }
            obs.check(sends.len() <= MAX_HEAD_PEERS, "C31:more-than-10-peers", || format!("round {r}: {} head requests in one round", sends.len()))?;
            if eligible.len() > MAX_HEAD_PEERS && !sends.is_empty() {
                obs.label("more-than-10-eligible-peers");
            }
            if waiting_at_schedule > 0 && !eligible.is_empty() {
                // quiescent point, a tick has passed: the pending head request must have been scheduled
                obs.check(!sends.is_empty(), "C31:head-round-not-scheduled", || {
                    format!("round {r}: {waiting_at_schedule} caller(s) waiting, {} connected trusted peer(s), a scheduling tick passed, but no head request was sent", eligible.len())
                })?;
            }
            if waiting_at_schedule > 0 && eligible.is_empty() {
                obs.label("no-eligible-peer-round-waits");
            }

            // ---- answers
            let n = sends.len();
            let mut remaining = sends;
            let mut valid: Vec<ExtendedHeader> = Vec::new();
            let mut delivered: Vec<(usize, Ans)> = Vec::new();
            for k in 0..n {
                apply_events(&mut d, &mut callers, obs, (k + 1) as u8, false);
                let idx = pick(round.order[k.min(round.order.len() - 1)], remaining.len());
                let s = remaining.remove(idx);
                let i = d.peer_index(&s.peer).unwrap();
                let ans = round.answers[i].clone();
                match &ans {
                    Ans::Valid { h, v } => {
                        let hd = pool.get(*h as usize, *v);
                        d.sim.on_response(s.peer, s.id, vec![resp_ok(&hd)]);
                        valid.push(hd);
                    }
                    Ans::Invalid { h, bad_sig } => {
                        let hd = pool.invalid(*h as usize, *bad_sig);
                        d.sim.on_response(s.peer, s.id, vec![resp_ok(&hd)]);
                    }
                    Ans::Two { h } => {
                        let a = pool.get(*h as usize, 0);
                        let b = pool.get(*h as usize + 1, 0);
                        d.sim.on_response(s.peer, s.id, vec![resp_ok(&a), resp_ok(&b)]);
                    }
                    Ans::NotFound => d.sim.on_response(s.peer, s.id, vec![resp_status(StatusCode::NotFound)]),
                    Ans::InvalidStatus => d.sim.on_response(s.peer, s.id, vec![resp_status(StatusCode::Invalid)]),
                    Ans::Fail(kd) => d.sim.on_failure(s.peer, s.id, failure_kind(*kd)),
                }
                delivered.push((i, ans));
                d.run_for(SETTLE).await;
                if !d.take_sends().is_empty() {
                    // a second round while one is in flight: outside what this harness can attribute
                    BUDGET_OVERRUN.store(true, Ordering::SeqCst);
                    return Ok(());
                }
            }

            // ---- quiescent point after the last answer: collect what the callers got
            let waiting: Vec<usize> = (0..callers.len()).filter(|&c| callers[c].joined && !callers[c].dropped && callers[c].answered_in.is_none()).collect();
            let mut got: Vec<(usize, ExtendedHeader)> = Vec::new();
            for &c in &waiting {
                match callers[c].rx.as_mut().unwrap().try_recv() {
                    Ok(Ok(hs)) => {
                        callers[c].answered_in = Some(r);
                        obs.check(hs.len() == 1, "C31:answer-not-single-header", || format!("round {r}: caller {c} received {} headers", hs.len()))?;
                        got.push((c, hs.into_iter().next().unwrap()));
                    }
                    Ok(Err(e)) => {
                        return obs.fail("C31:caller-received-error", format!("round {r}: head caller {c} received an error: {e}"));
                    }
                    Err(TryRecvError::Empty) => {}
                    Err(TryRecvError::Closed) => {
                        return obs.fail("C31:caller-channel-closed", format!("round {r}: head caller {c}'s channel was closed without an answer"));
                    }
                }
            }

            if n > 0 {
                let mut hashes: Vec<Hash> = valid.iter().map(|h| h.hash()).collect();
                hashes.sort();
                hashes.dedup();
                let nontrivial = valid.len() >= 2 && hashes.len() >= 2;
                obs.eval(nontrivial.then(|| digest_of(&(case.seed, &delivered))));
                if valid.is_empty() {
                    obs.label("round-without-valid-answer");
                    obs.check(got.is_empty(), "C31:answered-without-valid-response", || {
                        format!("round {r}: no valid single-header answer was delivered, but caller(s) {:?} were answered", got.iter().map(|g| g.0).collect::<Vec<_>>())
                    })?;
                } else {
                    // every waiting caller is answered, all the same, and the rule holds
                    obs.check(got.len() == waiting.len(), "C31:waiting-caller-not-answered", || {
                        format!(
                            "round {r}: {} valid answer(s) were delivered and the round is complete, but only {} of {} waiting callers were answered",
                            valid.len(),
                            got.len(),
                            waiting.len()
                        )
                    })?;
                    for w in got.windows(2) {
                        obs.check(w[0].1.hash() == w[1].1.hash() && w[0].1.height() == w[1].1.height(), "C31:callers-received-different-heads", || {
                            format!("round {r}: caller {} got height {} hash {}, caller {} got height {} hash {}", w[0].0, w[0].1.height(), w[0].1.hash(), w[1].0, w[1].1.height(), w[1].1.hash())
                        })?;
                    }
                    if got.len() >= 2 {
                        obs.label("several-callers-same-answer");
                    }
                    // classification
                    let mut count: HashMap<Hash, usize> = HashMap::new();
                    for h in &valid {
                        *count.entry(h.hash()).or_default() += 1;
                    }
                    let agreed_max = valid.iter().filter(|h| count[&h.hash()] >= 2).map(|h| h.height()).max();
                    let overall_max = valid.iter().map(|h| h.height()).max().unwrap();
                    let mut heights: Vec<(u64, Hash)> = valid.iter().map(|h| (h.height(), h.hash())).collect();
                    heights.sort();
                    heights.dedup();
                    if heights.windows(2).any(|w| w[0].0 == w[1].0) {
                        obs.label("same-height-different-hash");
                    }
                    match agreed_max {
                        Some(m) => {
                            obs.label("round-with-agreement");
                            if m < overall_max {
                                obs.label("agreement-below-highest-reported");
                            }
                            if valid.iter().any(|h| count[&h.hash()] >= 2 && h.height() < m) {
                                obs.label("agreement-at-several-heights");
                            }
                            if valid.iter().filter(|h| h.height() == m && count[&h.hash()] >= 2).map(|h| h.hash()).collect::<std::collections::BTreeSet<_>>().len() >= 2 {
                                obs.label("two-agreed-headers-at-best-height");
                            }
                        }
                        None => {
                            obs.label("round-without-agreement");
                            if heights.iter().filter(|x| x.0 == overall_max).count() >= 2 {
                                obs.label("no-agreement-tie-at-highest");
                            }
                        }
                    }
                    if let Some((c, h)) = got.first() {
                        if let Some(why) = rule_violation(&valid, h) {
                            let rep: Vec<String> = valid.iter().map(|v| format!("h{}:{}", v.height(), &v.hash().to_string()[..8])).collect();
                            return obs.fail("C31:best-head-rule", format!("round {r}: caller {c}: {why}; valid answers of the round: {rep:?}"));
                        }
                    } else {
                        obs.label("round-resolved-nobody-waiting");
                    }
                }
            } else {
                obs.check(got.is_empty(), "C31:answered-without-valid-response", || format!("round {r}: nothing was sent but callers {:?} were answered", got.iter().map(|g| g.0).collect::<Vec<_>>()))?;
            }

            // whatever is still due in this round happens after the round
            apply_events(&mut d, &mut callers, obs, (n + 1) as u8, true);

            if n > 0 && valid.is_empty() && r + 1 == case.rounds.len() {
                // a new round must be scheduled after a failed one (checked inside the loop for inner rounds)
                let waiting_now = callers.iter().filter(|c| c.joined && !c.dropped && c.answered_in.is_none()).count();
                let eligible_now = (0..np).filter(|&i| { let s = d.state(i); s.connected && s.trusted }).count();
                d.run_for(TICK).await;
                let again = d.take_sends();
                if waiting_now > 0 && eligible_now > 0 {
                    obs.check(!again.is_empty(), "C31:head-round-not-scheduled", || format!("after failed round {r}: {waiting_now} caller(s) still waiting, {eligible_now} eligible peer(s), but no new head round was sent"))?;
                    obs.label("failed-round-rescheduled");
                }
            } else if n > 0 && valid.is_empty() {
                obs.label("failed-round-followed-by-another");
            }
        }
        d.sim.stop();
        Ok(())
    })
}

pub fn run(ctx: &mut Ctx) {
    ctx.assume("hook lumina_node::verif::header_ex_client_sim forwards 1:1 to HeaderExClientHandler / PeerTracker (real handler, real tracker; only the RequestSender is a recorder)");
    ctx.assume("peer state at send time is read from the real PeerTracker (its own correctness is C39's subject)");
    ctx.assume("the client picks peers through HashMap order / thread_rng: the oracle is independent of which eligible peers were asked (answers are attributed to the peer actually asked)");
    ctx.assume("the oracle is applied at quiescent points under a paused clock (handler polled to Pending after every injected answer, 250 ms of virtual time for a scheduling tick)");
    ctx.essential(&[
        "round-with-agreement",
        "round-without-agreement",
        "agreement-below-highest-reported",
        "same-height-different-hash",
        "round-without-valid-answer",
        "failed-round-followed-by-another",
        "caller-dropped-before-answer",
        "several-callers-same-answer",
        "untrusted-connected-peer-present",
        "disconnected-trusted-peer-present",
    ]);
    ctx.set_shrink_iters(600);
    let cases = ctx.tier.pick(4000, 120_000);
    let max_rounds = 3;
    let reps = replay_reps();
    ctx.proptest(
        "head-rounds",
        "per case: 1..15 peers (trusted/untrusted, connected/disconnected), 1..4 head callers joining/dropping at generated points, 1..3 rounds of per-peer answers (valid header from 5 heights x 3 hashes, invalid header, two headers, NotFound, Invalid status, outbound failure) delivered in generated order; one evaluation per round that was sent. Non-trivial = round with >= 2 valid answers carrying >= 2 distinct hashes (the selection rule decides); distinct by (chain seed, delivered (peer, answer) sequence)",
        cases,
        move || case_strategy(max_rounds),
        move |case, obs| {
            for _ in 0..reps {
                run_case(case, obs)?;
            }
            Ok(())
        },
    );
    if BUDGET_OVERRUN.load(Ordering::SeqCst) {
        ctx.inconclusive("a simulation exceeded the harness's step budget or produced overlapping head rounds the harness cannot attribute");
    }
}
