//! C23 — Redb schema migration preserves stored ranges.
//!
//! Databases are written with raw redb tables exactly as older lumina versions did (v1:
//! `STORE.HEIGHT_RANGES: u64 -> (u64,u64)`; v2: `STORE.RANGES` with the header key and the old
//! `KEY.ACCEPTED_SAMPING_RANGES`; v3: current keys), with schema versions 1..=5, then opened with
//! `RedbStore::new`.

use std::sync::Arc;

use lumina_node::store::{RedbStore, Store};
use lv_common::prelude::*;
use redb::{Database, ReadableTable, TableDefinition};

const SCHEMA_VERSION_TABLE: TableDefinition<'static, (), u64> = TableDefinition::new("STORE.SCHEMA_VERSION");
const RANGES_TABLE: TableDefinition<'static, &str, Vec<(u64, u64)>> = TableDefinition::new("STORE.RANGES");
const V1_HEIGHT_RANGES: TableDefinition<'static, u64, (u64, u64)> = TableDefinition::new("STORE.HEIGHT_RANGES");
const HEADER_KEY: &str = "KEY.HEADER_RANGES";
const SAMPLED_KEY: &str = "KEY.SAMPLED_RANGES";
const PRUNED_KEY: &str = "KEY.PRUNED_RANGES";
const V2_SAMPLED_KEY: &str = "KEY.ACCEPTED_SAMPING_RANGES";

#[derive(Clone, Debug, Serialize, Deserialize)]
pub struct Case {
    pub version: u8,
    /// canonical range list as (gap before, length) pairs
    pub stored: Vec<(u32, u32)>,
    /// which stored heights are sampled: per stored range (offset selector, length selector), or skip
    pub sampled: Vec<Option<(u16, u16)>>,
    pub pruned_gap: Option<u16>,
    pub base: u64,
}

fn canon(base: u64, gl: &[(u32, u32)]) -> Vec<(u64, u64)> {
    let mut out = Vec::new();
    let mut at = base.max(1);
    for (gap, len) in gl {
        // gap >= 1 between ranges keeps them non-adjacent
        let start = at.saturating_add(*gap as u64 + if out.is_empty() { 0 } else { 1 });
        let end = start.saturating_add(*len as u64);
        if end >= u64::MAX - 2 {
            break;
        }
        out.push((start, end));
        at = end + 1;
    }
    out
}

fn sampled_of(stored: &[(u64, u64)], sel: &[Option<(u16, u16)>]) -> Vec<(u64, u64)> {
    let mut out = Vec::new();
    for (i, (a, b)) in stored.iter().enumerate() {
        if let Some(Some((o, l))) = sel.get(i) {
            let len = b - a + 1;
            let off = ((*o as u128 * len as u128) >> 16) as u64;
            let rem = len - off;
            let l = ((*l as u128 * rem as u128) >> 16) as u64;
            out.push((a + off, a + off + l));
        }
    }
    out
}

fn read_raw(db: &Database) -> (Option<u64>, Vec<(String, Vec<(u64, u64)>)>, Option<Vec<(u64, (u64, u64))>>) {
    let tx = db.begin_read().unwrap();
    let version = tx.open_table(SCHEMA_VERSION_TABLE).ok().and_then(|t| t.get(()).unwrap().map(|g| g.value()));
    let mut ranges = Vec::new();
    if let Ok(t) = tx.open_table(RANGES_TABLE) {
        for k in [HEADER_KEY, SAMPLED_KEY, PRUNED_KEY, V2_SAMPLED_KEY] {
            if let Some(v) = t.get(k).unwrap() {
                ranges.push((k.to_string(), v.value()));
            }
        }
    }
    let v1 = tx.open_table(V1_HEIGHT_RANGES).ok().map(|t| t.iter().unwrap().map(|r| { let (k, v) = r.unwrap(); (k.value(), v.value()) }).collect());
    (version, ranges, v1)
}

fn bv(r: &lumina_node::store::BlockRanges) -> Vec<(u64, u64)> {
    let v: &[std::ops::RangeInclusive<u64>] = r.as_ref();
    v.iter().map(|x| (*x.start(), *x.end())).collect()
}

fn run_case(case: &Case, obs: &mut Obs) -> Result<(), Failure> {
    let stored = canon(case.base, &case.stored);
    let sampled = if case.version >= 2 { sampled_of(&stored, &case.sampled) } else { vec![] };
    let pruned: Vec<(u64, u64)> = match (case.pruned_gap, stored.first()) {
        (Some(g), Some((a, _))) if case.version >= 3 && *a > 2 => {
            let lo = 1 + ((g as u128 * (*a as u128 - 2)) >> 16) as u64;
            vec![(lo, a - 2)]
        }
        _ => vec![],
    };
    let db = Arc::new(Database::builder().create_with_backend(redb::backends::InMemoryBackend::new()).unwrap());
    {
        let tx = db.begin_write().unwrap();
        {
            let mut sv = tx.open_table(SCHEMA_VERSION_TABLE).unwrap();
            sv.insert((), case.version as u64).unwrap();
            match case.version {
                1 => {
                    let mut t = tx.open_table(V1_HEIGHT_RANGES).unwrap();
                    for (i, r) in stored.iter().enumerate() {
                        t.insert(i as u64, *r).unwrap();
                    }
                }
                2 => {
                    let mut t = tx.open_table(RANGES_TABLE).unwrap();
                    t.insert(HEADER_KEY, stored.clone()).unwrap();
                    t.insert(V2_SAMPLED_KEY, sampled.clone()).unwrap();
                }
                _ => {
                    let mut t = tx.open_table(RANGES_TABLE).unwrap();
                    t.insert(HEADER_KEY, stored.clone()).unwrap();
                    t.insert(SAMPLED_KEY, sampled.clone()).unwrap();
                    t.insert(PRUNED_KEY, pruned.clone()).unwrap();
                }
            }
        }
        tx.commit().unwrap();
    }
    let raw_before = read_raw(&db);
    let rt = tokio::runtime::Builder::new_current_thread().enable_all().build().unwrap();
    let nontrivial = !stored.is_empty() && (case.version != 3);
    obs.eval(nontrivial.then(|| digest_of(&(case.version, &stored, &sampled))));
    obs.label(&format!("schema-v{}", case.version));
    if case.version <= 2 && !sampled.is_empty() {
        obs.label("old-schema-with-sampled-ranges");
    }
    if stored.len() >= 2 {
        obs.label("multi-range");
    }
    let opened = rt.block_on(RedbStore::new(db.clone()));
    if case.version <= 3 {
        let store = match opened {
            Ok(s) => s,
            Err(e) => {
                return obs.fail("C23:old-schema-refused", format!("schema v{} database with stored {stored:?} sampled {sampled:?} failed to open: {e}", case.version));
            }
        };
        let got = rt.block_on(async { (store.get_stored_header_ranges().await, store.get_sampled_ranges().await, store.get_pruned_ranges().await) });
        let (gs, gp, gr) = match got {
            (Ok(a), Ok(b), Ok(c)) => (bv(&a), bv(&b), bv(&c)),
            (a, b, c) => {
                return obs.fail(
                    "C23:ranges-unreadable-after-migration",
                    format!("v{}: written stored {stored:?} sampled {sampled:?}; after migration reading ranges failed: {:?} {:?} {:?}", case.version, a.err().map(|e| e.to_string()), b.err().map(|e| e.to_string()), c.err().map(|e| e.to_string())),
                );
            }
        };
        rt.block_on(store.close()).unwrap();
        obs.check(gs == stored, "C23:stored-ranges-changed", || format!("v{}: stored ranges written {stored:?}, reported after migration {gs:?}", case.version))?;
        obs.check(gp == sampled, "C23:sampled-ranges-changed", || format!("v{}: sampled ranges written {sampled:?}, reported after migration {gp:?}", case.version))?;
        obs.check(gr == pruned, "C23:pruned-ranges-changed", || format!("v{}: pruned ranges written {pruned:?}, reported {gr:?}", case.version))?;
        let raw = read_raw(&db);
        obs.check(raw.0 == Some(3), "C23:schema-version-not-updated", || format!("schema version after migration is {:?}", raw.0))?;
        obs.check(!raw.1.iter().any(|(k, _)| k == V2_SAMPLED_KEY), "C23:old-key-left-behind", || "v2 sampled key still present after migration".into())?;
        obs.check(raw.2.as_ref().map(|v| v.is_empty()).unwrap_or(true), "C23:old-table-left-behind", || "v1 HEIGHT_RANGES table still has rows after migration".into())?;
        // idempotent re-open
        let again = rt.block_on(RedbStore::new(db.clone())).map_err(|e| Failure::new("C23:reopen-after-migration-failed", e.to_string()))?;
        let (gs2, gp2) = rt.block_on(async { (bv(&again.get_stored_header_ranges().await.unwrap()), bv(&again.get_sampled_ranges().await.unwrap())) });
        rt.block_on(again.close()).unwrap();
        obs.check(gs2 == stored && gp2 == sampled, "C23:reopen-changed-ranges", || format!("second open reports stored {gs2:?} sampled {gp2:?}"))?;
    } else {
        match opened {
            Ok(s) => {
                let _ = rt.block_on(s.close());
                obs.fail("C23:newer-schema-accepted", format!("database with schema version {} was opened", case.version))?;
            }
            Err(e) => {
                let msg = e.to_string();
                // a refusal produced by a panic inside the open path (e.g. a debug assertion that only
                // exists in checked builds) is not a refusal of the schema version
                obs.check(!msg.contains("panicked"), "C23:newer-schema-refused-by-panic", || format!("schema v{} database was only refused because the open path panicked: {msg}", case.version))?;
            }
        }
        let raw_after = read_raw(&db);
        obs.check(raw_after == raw_before, "C23:refused-database-modified", || format!("refused v{} database changed: before {raw_before:?} after {raw_after:?}", case.version))?;
    }
    Ok(())
}

pub fn run(ctx: &mut Ctx) {
    ctx.assume("old databases are written by the harness with raw redb tables as the v1/v2 code did (v1 has no sampled ranges); range lists are canonical (sorted, disjoint, non-adjacent, no height 0); sampled ⊆ stored");
    ctx.essential(&["schema-v1", "schema-v2", "schema-v3", "schema-v4", "schema-v5", "old-schema-with-sampled-ranges"]);
    let cases = ctx.tier.pick(1200, 40000);
    ctx.proptest(
        "migration",
        "database = schema version 1..=5 x canonical stored ranges (0..8 ranges, boundary-biased base incl. near u64::MAX) x sampled sub-ranges x pruned range; opened with RedbStore::new. Non-trivial = non-empty ranges under a schema version other than the current one (distinct by version+ranges)",
        cases,
        || {
            (
                1u8..=5,
                prop::collection::vec((0u32..50, prop_oneof![3 => 0u32..20, 1 => 0u32..100_000]), 0..8),
                prop::collection::vec(prop::option::of((any::<u16>(), any::<u16>())), 0..8),
                prop::option::of(any::<u16>()),
                prop_oneof![4 => 1u64..100, 2 => 1u64..1_000_000, 1 => (u64::MAX - 1_000_000)..(u64::MAX - 500_000), 1 => Just(1u64 << 32)],
            )
                .prop_map(|(version, stored, sampled, pruned_gap, base)| Case { version, stored, sampled, pruned_gap, base })
        },
        run_case,
    );
}
