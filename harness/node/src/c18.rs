//! C18 — Store insertion constraints admit exactly the legal ranges.
//!
//! Oracle = the property sentence, set-based:
//!   Ok  <=> valid(a>=1, a<=b)  and  [a,b] ∩ S = ∅  and  (S = ∅ or a > max S or a-1 ∈ S or b+1 ∈ S)
//!   flags == (a-1 ∈ S, b+1 ∈ S);   error kind = the failed clause.
//! Three parts: exhaustive over S ⊆ {1..10} x a,b ∈ 0..=12 on `BlockRanges::check_insertion_constraints`;
//! random u64-wide; and the `InMemoryStore::insert` call site with a real header chain over heights 1..12.
use std::sync::OnceLock;

use celestia_types::ExtendedHeader;
use lumina_node::block_ranges::{BlockRanges, BlockRangesError};
use lumina_node::store::{InMemoryStore, Store, StoreError, StoreInsertionError, VerifiedExtendedHeaders};
use lv_common::prelude::*;
use lv_gen::chain::{TimeBase, build_chain, simple_chain_spec};
use lv_gen::ranges::{HMAX, ISet, RangesSpec, build_ranges, ranges_spec_strategy};

use crate::c17::{Val, build_from_model, resolve, to_iset, val_strategy};

#[derive(Clone, Copy, Debug, PartialEq, Eq)]
pub enum Expect {
    Ok(bool, bool),
    Invalid,
    Overlap,
    NoNeighbors,
}

/// The property sentence, evaluated on sets.
pub fn ref_insertion(s: &ISet, a: u64, b: u64) -> Expect {
    if !(a >= 1 && a <= b) {
        return Expect::Invalid;
    }
    let (a, b) = (a as u128, b as u128);
    if !s.inter(&ISet::single(a, b)).is_empty() {
        return Expect::Overlap;
    }
    let prev = s.contains(a - 1);
    let next = s.contains(b + 1);
    let above_all = s.max().is_none_or(|m| a > m);
    if s.is_empty() || above_all || prev || next { Expect::Ok(prev, next) } else { Expect::NoNeighbors }
}

fn classify(got: &Result<(bool, bool), BlockRangesError>) -> Result<Expect, String> {
    Ok(match got {
        Ok((p, n)) => Expect::Ok(*p, *n),
        Err(BlockRangesError::InvalidBlockRange(_)) => Expect::Invalid,
        Err(BlockRangesError::BlockRangeOverlap(_, _)) => Expect::Overlap,
        Err(BlockRangesError::NoAdjacentNeighbors(_)) => Expect::NoNeighbors,
        Err(e) => return Err(format!("unexpected error kind {e:?}")),
    })
}

fn outcome_label(s: &ISet, a: u64, e: Expect) -> &'static str {
    match e {
        Expect::Ok(false, false) if s.is_empty() => "ok-empty-store",
        Expect::Ok(false, false) => "ok-new-head-with-gap",
        Expect::Ok(true, false) if s.max().is_some_and(|m| a as u128 > m) => "ok-new-head-adjacent",
        Expect::Ok(true, false) => "ok-left-neighbour-inner",
        Expect::Ok(false, true) => "ok-right-neighbour",
        Expect::Ok(true, true) => "ok-fills-gap",
        Expect::Invalid => "err-invalid",
        Expect::Overlap => "err-overlap",
        Expect::NoNeighbors => "err-no-neighbours",
    }
}

/// One evaluation of `check_insertion_constraints` against the reference. Returns the expectation.
pub fn eval_one(obs: &mut Obs, r: &BlockRanges, s: &ISet, a: u64, b: u64, digest: u64) -> Result<Expect, Failure> {
    let want = ref_insertion(s, a, b);
    let nontrivial = want != Expect::Invalid && !s.is_empty();
    obs.eval(nontrivial.then_some(digest));
    obs.label(outcome_label(s, a, want));
    if b == u64::MAX && want != Expect::Invalid || s.contains(HMAX) {
        obs.label("u64-max-edge");
    }
    let got = r.check_insertion_constraints(a..=b);
    let ctx = || format!("stored={:?} candidate={a}..={b}: got {got:?}, the property gives {want:?}", s.0);
    let cls = match classify(&got) {
        Ok(c) => c,
        Err(e) => {
            obs.fail("C18:error-kind", format!("{e}; {}", ctx()))?;
            return Ok(want);
        }
    };
    match (cls, want) {
        (x, y) if x == y => {}
        (Expect::Ok(_, _), Expect::Ok(_, _)) => obs.fail("C18:flags-wrong", ctx())?,
        (Expect::Ok(_, _), _) => obs.fail("C18:admitted-illegal-range", ctx())?,
        (_, Expect::Ok(_, _)) => obs.fail("C18:rejected-legal-range", ctx())?,
        _ => obs.fail("C18:error-kind", ctx())?,
    }
    // the reported error must name the candidate itself
    match &got {
        Err(BlockRangesError::InvalidBlockRange(g)) | Err(BlockRangesError::NoAdjacentNeighbors(g)) | Err(BlockRangesError::BlockRangeOverlap(g, _)) if *g != (a..=b) => {
            obs.fail("C18:error-kind", format!("error names another range; {}", ctx()))?
        }
        _ => {}
    }
    Ok(want)
}

// ------------------------------------------------------------------------------------------------
// store call site: InMemoryStore::insert over a real chain 1..=12
// ------------------------------------------------------------------------------------------------

pub const CHAIN_T0: u64 = 1_700_000_000; // unix seconds of height 1
pub const CHAIN_DT_MS: u32 = 10_000;

/// a valid single-validator chain of heights 1..=12, times T0 + (h-1)*10 s (built once)
pub fn chain12() -> &'static Vec<ExtendedHeader> {
    static C: OnceLock<Vec<ExtendedHeader>> = OnceLock::new();
    C.get_or_init(|| build_chain(&simple_chain_spec(0xC18, 1, 12, TimeBase::Fixed(CHAIN_T0), CHAIN_DT_MS)).headers)
}

pub fn rt() -> tokio::runtime::Runtime {
    tokio::runtime::Builder::new_current_thread().enable_time().build().expect("tokio runtime")
}

/// store holding exactly the heights of `mask` (bits 1..=12): maximal runs inserted in ascending order
pub async fn store_with(mask: u64) -> Result<InMemoryStore, Failure> {
    let store = InMemoryStore::new();
    let ch = chain12();
    for &(a, b) in &ISet::from_mask(mask).0 {
        let hs: Vec<ExtendedHeader> = ch[a as usize - 1..=b as usize - 1].to_vec();
        // SAFETY: a contiguous slice of a chain that was built valid and linked
        let v = unsafe { VerifiedExtendedHeaders::new_unchecked(hs) };
        store.insert(v).await.map_err(|e| Failure::new("gen", format!("setup insert of {a}..={b} failed: {e}")))?;
    }
    Ok(store)
}

fn store_case(idx: &u16, obs: &mut Obs) -> Result<(), Failure> {
    let m = (*idx as u64) << 1;
    let s = ISet::from_mask(m);
    let rt = rt();
    rt.block_on(async {
        let mut store = store_with(m).await?;
        let ch = chain12();
        for a in 1..=12u64 {
            for b in a..=12u64 {
                let want = ref_insertion(&s, a, b);
                obs.eval((!s.is_empty()).then(|| (m << 16) | (a << 8) | b));
                obs.label(outcome_label(&s, a, want));
                let hs: Vec<ExtendedHeader> = ch[a as usize - 1..=b as usize - 1].to_vec();
                // SAFETY: contiguous slice of a valid chain
                let v = unsafe { VerifiedExtendedHeaders::new_unchecked(hs) };
                let res = store.insert(v).await;
                let after = store.get_stored_header_ranges().await.map_err(|e| Failure::new("gen", format!("get_stored_header_ranges: {e}")))?;
                let after_m = ISet::normalise(to_iset(&after).0);
                let ctx = || format!("InMemoryStore stored={:?} insert {a}..={b}: result {:?}, stored afterwards {:?}; the property gives {want:?}", s.0, res.as_ref().map_err(|e| e.to_string()), after_m.0);
                match (&res, want) {
                    (Ok(()), Expect::Ok(_, _)) => {
                        if after_m != s.insert(a as u128, b as u128) {
                            obs.fail("C18:store-ranges-after-insert", ctx())?;
                        }
                        // accepted: rebuild the stored set for the next candidate
                        store = store_with(m).await?;
                    }
                    (Ok(()), _) => {
                        obs.fail("C18:admitted-illegal-range", ctx())?;
                        store = store_with(m).await?;
                    }
                    (Err(e), Expect::Ok(_, _)) => {
                        let _ = e;
                        obs.fail("C18:rejected-legal-range", ctx())?;
                    }
                    (Err(e), w) => {
                        let kind_ok = match e {
                            StoreError::InsertionFailed(StoreInsertionError::ConstraintsNotMet(k)) => match (k, w) {
                                (BlockRangesError::BlockRangeOverlap(_, _), Expect::Overlap) => true,
                                (BlockRangesError::NoAdjacentNeighbors(_), Expect::NoNeighbors) => true,
                                (BlockRangesError::InvalidBlockRange(_), Expect::Invalid) => true,
                                _ => false,
                            },
                            _ => false,
                        };
                        if !kind_ok {
                            obs.fail("C18:error-kind", ctx())?;
                        }
                        if after_m != s {
                            obs.fail("C18:store-changed-by-rejected-insert", ctx())?;
                        }
                    }
                }
            }
        }
        Ok(())
    })
}

// ------------------------------------------------------------------------------------------------

#[derive(Clone, Debug, Serialize, Deserialize)]
pub struct Case {
    pub stored: RangesSpec,
    pub cands: Vec<(Val, Val, bool)>,
}

pub fn run(ctx: &mut Ctx) {
    ctx.assume("stored sets are canonical BlockRanges built through insert_relaxed; the reference decision is the property sentence evaluated on an independent u128 interval model");
    ctx.assume("store call site: InMemoryStore::insert with contiguous slices of one valid generated chain (heights 1..12), so neighbour verification always passes and only the range constraints decide");
    ctx.essential(&[
        "ok-empty-store",
        "ok-new-head-with-gap",
        "ok-new-head-adjacent",
        "ok-left-neighbour-inner",
        "ok-right-neighbour",
        "ok-fills-gap",
        "err-invalid",
        "err-overlap",
        "err-no-neighbours",
        "u64-max-edge",
    ]);

    ctx.enumerate(
        "small-universe",
        "every stored set S ⊆ {1..10} (1024 items) x every candidate [a,b] with a,b in 0..=12 incl. invalid (169): decision, both flags and error kind of check_insertion_constraints vs the set-based reference. Non-trivial = valid candidate against a non-empty S; distinct by (S,a,b)",
        true,
        (0u16..1024).collect::<Vec<_>>(),
        |idx, obs| {
            let m = (*idx as u64) << 1;
            let s = ISet::from_mask(m);
            let r = build_from_model(&s);
            for a in 0..=12u64 {
                for b in 0..=12u64 {
                    eval_one(obs, &r, &s, a, b, (m << 16) | (a << 8) | b)?;
                }
            }
            Ok(())
        },
    );

    ctx.enumerate(
        "store-insert",
        "every stored set S ⊆ {1..10} held by an InMemoryStore (real chain) x every valid candidate 1<=a<=b<=12 (78) inserted through Store::insert: accepted <=> reference admits, rejected with ConstraintsNotMet(kind of the failed clause) and store unchanged, accepted => stored ranges = S ∪ [a,b]. Non-trivial = S non-empty",
        true,
        (0u16..1024).collect::<Vec<_>>(),
        store_case,
    );

    let cases = ctx.tier.pick(300_000, 1_500_000);
    ctx.proptest(
        "random-u64",
        "random canonical stored sets (<=6 runs, u64-wide, anchored at 1 or at u64::MAX) x 8 candidates whose endpoints are boundary-biased (1,2,2^63,u64::MAX-k, edges of S +-3, random). Non-trivial = valid candidate against non-empty S; distinct by (S,a,b)",
        cases,
        || {
            (ranges_spec_strategy(6), prop::collection::vec((val_strategy(true), val_strategy(false), prop::bool::weighted(0.9)), 8..=8))
                .prop_map(|(stored, cands)| Case { stored, cands })
        },
        |case, obs| {
            let s = build_ranges(&case.stored);
            let r = build_from_model(&s);
            let ds = digest_of(&s.0);
            for (a, b, order) in &case.cands {
                let (mut a, mut b) = (resolve(a, &s, 0), resolve(b, &s, 1));
                if *order && a > b {
                    std::mem::swap(&mut a, &mut b);
                }
                eval_one(obs, &r, &s, a, b, ds ^ a.rotate_left(21) ^ b.rotate_left(43))?;
            }
            Ok(())
        },
    );
}
