//! lv-node: dispatcher. One module per property; each exposes `pub fn run(ctx: &mut Ctx)`.
use lv_common::{Ctx, parse_args};

mod c09;
mod hex_client_sim;
mod c10;
mod c16;
mod c17;
mod c18;
mod c19;
mod c22;
mod c23;
mod c24;
mod c25;
mod c26;
mod c27;
mod c28;
mod c29;
mod c30;
mod c31;
mod c32;
mod c33;
mod c34;
mod c35;
mod c36;
mod c37;
mod c38;
mod c39;
mod c40;
mod c41;
mod daser_sim;
mod pruner_sim;
mod syncer_sim;

fn main() {
    let args = parse_args();
    let level = if args.prop == "C22" { "fault_enumeration" } else { "exploration" };
    let mut ctx = Ctx::from_args(&args, level);
    match args.prop.as_str() {
        "C09" => c09::run(&mut ctx),
        "C10" => c10::run(&mut ctx),
        "C16" => c16::run(&mut ctx),
        "C17" => c17::run(&mut ctx),
        "C18" => c18::run(&mut ctx),
        "C19" | "C20" | "C21" => c19::run(&mut ctx),
        "C22" => c22::run(&mut ctx),
        "C23" => c23::run(&mut ctx),
        "C24" => c24::run(&mut ctx),
        "C25" => c25::run(&mut ctx),
        "C26" => c26::run(&mut ctx),
        "C27" => c27::run(&mut ctx),
        "C28" => c28::run(&mut ctx),
        "C29" => c29::run(&mut ctx),
        "C30" => c30::run(&mut ctx),
        "C31" => c31::run(&mut ctx),
        "C32" => c32::run(&mut ctx),
        "C33" => c33::run(&mut ctx),
        "C34" => c34::run(&mut ctx),
        "C35" => c35::run(&mut ctx),
        "C36" => c36::run(&mut ctx),
        "C37" => c37::run(&mut ctx),
        "C38" => c38::run(&mut ctx),
        "C39" => c39::run(&mut ctx),
        "C40" => c40::run(&mut ctx),
        "C41" => c41::run(&mut ctx),
        other => {
            eprintln!("lv-node: unknown property {other}");
            std::process::exit(2);
        }
    }
    ctx.finish();
}
