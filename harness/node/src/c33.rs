//! C33 — Data sampling marks a block sampled only after full success.
//!
//! The real `Daser` runs over a mocked `P2p` (`DaserSim`), a recording wrapper around `InMemoryStore`
//! and its event channel, on a paused `current_thread` tokio runtime. Chains carry real extended
//! squares (EDS width 2..64), honest answers are real `Sample` blocks, timeouts elapse on the virtual
//! clock. Schedules are proptest recipes (see `daser_sim.rs`).
use lv_common::prelude::*;

use crate::daser_sim::{DaserRecipe, Mode, dstep_strategy, run_daser_scenario, width_strategy};
use crate::pruner_sim::{Inconclusives, SimErr};

fn schedule_strategy(max_blocks: usize, max_steps: usize) -> impl Strategy<Value = DaserRecipe> {
    (
        (any::<u64>(), 6u8..=48, 1u8..=4, 0u8..=3, 0u8..=4),
        prop::collection::vec(width_strategy(true), 10..=max_blocks),
        prop::collection::vec((0u8..3, 1u8..14), 1..=4),
        prop_oneof![3 => Just(0u8), 1 => 0u8..40],
        prop_oneof![5 => Just(true), 1 => Just(false)],
        prop::collection::vec(dstep_strategy(4, 1, 1, 1), 5..=max_steps),
    )
        .prop_map(|((seed, sw_h, limit, allowance, n_old), widths, layout, pre_sampled_pct, connect_first, steps)| DaserRecipe {
            seed,
            sw_h,
            limit,
            allowance,
            n_old,
            widths,
            layout,
            pre_sampled_pct,
            connect_first,
            steps,
        })
}

/// many blocks of one width above 4, everything answered: judges that the random choice of shares can
/// reach every row and column of the square
fn spread_strategy() -> impl Strategy<Value = DaserRecipe> {
    (any::<u64>(), prop_oneof![3 => Just(2u8), 1 => Just(3u8)], 3u8..=4).prop_map(|(seed, l, limit)| {
        let n = if l == 2 { 30 } else { 64 };
        DaserRecipe {
            seed,
            sw_h: 24,
            limit,
            allowance: 0,
            n_old: 0,
            widths: vec![l; n],
            layout: vec![(0, n as u8)],
            pre_sampled_pct: 0,
            connect_first: true,
            steps: (0..n + 4).map(|_| crate::daser_sim::DStep::AnswerBlock { sel: 0 }).collect(),
        }
    })
}

fn judge(r: &DaserRecipe, obs: &mut Obs, inc: &Inconclusives) -> Result<(), Failure> {
    match run_daser_scenario(r, Mode { c33: true, ..Mode::default() }, obs) {
        Ok(()) => Ok(()),
        Err(SimErr::Fail(f)) => Err(f),
        Err(SimErr::Inconclusive(why)) => {
            inc.record(why);
            obs.label("scenario-not-judged");
            Ok(())
        }
    }
}

pub fn run(ctx: &mut Ctx) {
    ctx.assume("the mocked P2p answers GetShwapCid either with the honest Sample block of the header's real EDS or not at all (timeout) / with RequestTimedOut: verification of a delivered block against the DAH happens inside bitswap (ShwapMultihasher, property C10), not in the daser");
    ctx.assume("header times are placed relative to the wall clock with margins of >= 1 hour around the sampling-window cutoff, which dwarfs the run time of a scenario");
    ctx.assume("observations are taken at settled points of a current_thread tokio runtime with a paused clock (yield until 12 consecutive yields show no request, event or store call); the share choice uses thread_rng and select! order is random inside the daser, the oracle must hold for every such choice");
    ctx.assume("CIDs are compared through celestia-types SampleId <-> CID conversion (property C15)");
    ctx.essential(&[
        "marked-sampled-verified",
        "timeout-block-not-marked",
        "metadata-checked-at-first-request",
        "request-timed-out-on-the-virtual-clock",
        "answered-with-timeout-error",
        "schedule-with-interleaved-answers",
        "width-2",
        "width-4",
        "width-8",
        "width-16",
        "width-32",
        "width-64",
        "resampled-height",
        "disconnect-cancelled-attempt",
        "prune-granted",
        "index-spread-judged",
    ]);
    ctx.set_shrink_iters(400);
    let inc = Inconclusives::default();
    let (cases, max_blocks, max_steps) = match ctx.tier {
        Tier::Quick => (150u32, 40usize, 60usize),
        Tier::Thorough => (2500, 60, 120),
    };
    ctx.proptest(
        "daser-schedules",
        "a schedule = chain of 10..60 recent headers over real squares (EDS width 2..64) + daser limits + steps (insert head/historical headers, answer pending GetShwapCid honestly per block or singly, fail one, advance the virtual clock, prune via want_to_prune+remove_height, pruner reports, disconnect/reconnect/flap); one evaluation per SamplingStarted judged, per first-request metadata check, per mark_as_sampled judged and per timed-out sampling shown unmarked; non-trivial iff the schedule contains at least one timed-out share or answers interleaved across blocks; distinct by (schedule digest, evaluation index)",
        cases,
        move || schedule_strategy(max_blocks, max_steps),
        |r, obs| judge(r, obs, &inc),
    );
    inc.report(ctx, "daser-schedules");
    let inc2 = Inconclusives::default();
    ctx.proptest(
        "index-spread",
        "30 blocks of EDS width 8 (or 64 of width 16), all sampled to completion: every row and every column index must be used by some chosen share once the probability of missing one under a uniform choice is below 1e-12; non-trivial never (supporting check)",
        ctx.tier.pick(12, 96),
        spread_strategy,
        |r, obs| judge(r, obs, &inc2),
    );
    inc2.report(ctx, "index-spread");
}
