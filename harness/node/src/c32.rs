//! C32 — Header-ex requests are retried boundedly and answered once.
//!
//! `ClientSim` (see hex_client_sim.rs). A case is a peer population, 1..6 non-head requests with unique
//! origins / hashes (so every observed send is attributed to its request), a per-attempt outcome script per
//! request, and a schedule of harness actions (submit, tick, deliver one outstanding answer, drop a caller,
//! connect / disconnect / mark-archival a peer, stop). After the schedule the harness drains to quiescence
//! (ticks + delivery of everything outstanding until nothing moves) and judges liveness there.
use std::sync::atomic::Ordering;

use celestia_proto::p2p::pb::header_request::Data;
use celestia_proto::p2p::pb::{HeaderRequest, StatusCode};
use celestia_types::ExtendedHeader;
use lv_common::prelude::*;
use tokio::sync::oneshot::error::TryRecvError;

use crate::hex_client_sim::*;

const MAX_REQS: usize = 6;
const STRIDE: usize = 3;
const START: u64 = 20;

#[derive(Clone, Debug, Serialize, Deserialize)]
pub enum Outcome {
    /// exactly the requested headers
    Valid,
    /// a non-empty strict prefix of the requested range (valid; same as Valid for amount 1 / hash requests)
    ValidPrefix,
    /// first header fails validation
    BadHeader { bad_sig: bool },
    /// a valid header of another height / another hash
    WrongHeader,
    /// amount + 1 headers
    TooMany,
    NotFound,
    InvalidStatus,
    /// outbound failure
    Fail(u8),
}

#[derive(Clone, Debug, Serialize, Deserialize)]
pub enum ReqKind {
    Height { amount: u8 },
    Hash,
}

#[derive(Clone, Debug, Serialize, Deserialize)]
pub struct ReqSpec {
    pub kind: ReqKind,
    /// outcome of attempt 1, 2, 3
    pub script: Vec<Outcome>,
}

#[derive(Clone, Debug, Serialize, Deserialize)]
pub enum Step {
    Submit,
    Tick,
    Deliver(u16),
    DropCaller(u16),
    Connect(u16),
    Disconnect(u16),
    MarkArchival(u16),
}

#[derive(Clone, Debug, Serialize, Deserialize)]
pub struct Case {
    pub seed: u64,
    pub peers: Vec<PeerSpec>,
    pub reqs: Vec<ReqSpec>,
    /// requests submitted before the first step
    pub initial: u8,
    pub steps: Vec<Step>,
    /// `stop` is called before this step (or right after the last one)
    pub stop_before: Option<u8>,
}

fn outcome_strategy() -> impl Strategy<Value = Outcome> {
    prop_oneof![
        5 => Just(Outcome::Valid),
        1 => Just(Outcome::ValidPrefix),
        2 => any::<bool>().prop_map(|bad_sig| Outcome::BadHeader { bad_sig }),
        2 => Just(Outcome::WrongHeader),
        1 => Just(Outcome::TooMany),
        3 => Just(Outcome::NotFound),
        1 => Just(Outcome::InvalidStatus),
        4 => (0u8..5).prop_map(Outcome::Fail),
    ]
}

fn case_strategy(max_steps: usize) -> impl Strategy<Value = Case> {
    let peer = (prop::bool::weighted(0.4), prop::bool::weighted(0.75), prop::bool::weighted(0.35)).prop_map(|(trusted, connected, archival)| PeerSpec {
        trusted,
        connected,
        archival,
    });
    let req = (
        prop_oneof![3 => (1u8..=3).prop_map(|amount| ReqKind::Height { amount }), 1 => Just(ReqKind::Hash)],
        prop::collection::vec(outcome_strategy(), 3),
    )
        .prop_map(|(kind, script)| ReqSpec { kind, script });
    let step = prop_oneof![
        2 => Just(Step::Submit),
        5 => Just(Step::Tick),
        8 => any::<u16>().prop_map(Step::Deliver),
        1 => any::<u16>().prop_map(Step::DropCaller),
        1 => any::<u16>().prop_map(Step::Connect),
        1 => any::<u16>().prop_map(Step::Disconnect),
        1 => any::<u16>().prop_map(Step::MarkArchival),
    ];
    (
        any::<u64>(),
        prop::collection::vec(peer, 0..=8),
        prop::collection::vec(req, 1..=MAX_REQS),
        0u8..=3,
        prop::collection::vec(step, 0..=max_steps),
        prop::option::weighted(0.25, 0u8..=(max_steps as u8)),
    )
        .prop_map(|(seed, peers, reqs, initial, steps, stop_before)| Case {
            seed,
            peers,
            reqs,
            initial,
            steps,
            stop_before,
        })
}

/// What the harness answered to one send.
#[derive(Clone, Debug, PartialEq)]
enum Delivered {
    Valid(Vec<ExtendedHeader>),
    Err(ErrClass),
}

struct Send {
    id: u64,
    peer: usize,
    delivered: Option<Delivered>,
}

struct Req {
    request: HeaderRequest,
    submitted: bool,
    submitted_after_stop: bool,
    rx: Option<SimAnswerReceiver>,
    dropped: bool,
    sends: Vec<Send>,
    /// value read from the caller's channel
    answer: Option<Result<Vec<ExtendedHeader>, ErrClass>>,
}

struct World {
    d: Driver,
    pool: HeaderPool,
    reqs: Vec<Req>,
    stopped: bool,
}

impl World {
    fn request_for(pool: &HeaderPool, i: usize, kind: &ReqKind) -> HeaderRequest {
        let idx = i * STRIDE;
        match kind {
            ReqKind::Height { amount } => HeaderRequest {
                data: Some(Data::Origin(START + idx as u64)),
                amount: *amount as u64,
            },
            ReqKind::Hash => HeaderRequest {
                data: Some(Data::Hash(pool.chain.headers[idx].hash().as_bytes().to_vec())),
                amount: 1,
            },
        }
    }

    fn submit_next(&mut self, obs: &mut Obs) {
        if let Some(r) = self.reqs.iter_mut().find(|r| !r.submitted) {
            r.submitted = true;
            r.submitted_after_stop = self.stopped;
            r.rx = Some(self.d.sim.send_request(r.request.clone()));
            if self.stopped {
                obs.label("submitted-after-stop");
            }
        }
    }

    /// outstanding (undelivered) sends as (request index, send index), ordered by send id
    fn outstanding(&self) -> Vec<(usize, usize)> {
        let mut v: Vec<(u64, usize, usize)> = Vec::new();
        for (ri, r) in self.reqs.iter().enumerate() {
            for (si, s) in r.sends.iter().enumerate() {
                if s.delivered.is_none() {
                    v.push((s.id, ri, si));
                }
            }
        }
        v.sort();
        v.into_iter().map(|x| (x.1, x.2)).collect()
    }

    /// materialise the scripted outcome of attempt `si` of request `ri` and inject it
    fn deliver(&mut self, case: &Case, ri: usize, si: usize, force_closed: bool) {
        let idx = ri * STRIDE;
        let spec = &case.reqs[ri];
        let amount = match spec.kind {
            ReqKind::Height { amount } => amount as usize,
            ReqKind::Hash => 1,
        };
        let outcome = if force_closed { Outcome::Fail(1) } else { spec.script[si.min(spec.script.len() - 1)].clone() };
        let peer = self.d.peers[self.reqs[ri].sends[si].peer];
        let id = self.reqs[ri].sends[si].id;
        let full: Vec<ExtendedHeader> = (0..amount).map(|k| self.pool.get(idx + k, 0)).collect();
        let delivered = match outcome {
            Outcome::Valid => {
                self.d.sim.on_response(peer, id, full.iter().map(resp_ok).collect());
                Delivered::Valid(full)
            }
            Outcome::ValidPrefix => {
                let n = if amount > 1 { amount - 1 } else { 1 };
                let part = full[..n].to_vec();
                self.d.sim.on_response(peer, id, part.iter().map(resp_ok).collect());
                Delivered::Valid(part)
            }
            Outcome::BadHeader { bad_sig } => {
                let mut rs = vec![resp_ok(&self.pool.invalid(idx, bad_sig))];
                rs.extend(full[1..].iter().map(resp_ok));
                self.d.sim.on_response(peer, id, rs);
                Delivered::Err(ErrClass::InvalidResponse)
            }
            Outcome::WrongHeader => {
                let h = match spec.kind {
                    ReqKind::Height { .. } => self.pool.get(idx + 1, 0),
                    ReqKind::Hash => self.pool.get(idx, 1),
                };
                self.d.sim.on_response(peer, id, vec![resp_ok(&h)]);
                Delivered::Err(ErrClass::InvalidResponse)
            }
            Outcome::TooMany => {
                let mut hs = full.clone();
                hs.push(self.pool.get(idx + amount, 0));
                self.d.sim.on_response(peer, id, hs.iter().map(resp_ok).collect());
                Delivered::Err(ErrClass::InvalidResponse)
            }
            Outcome::NotFound => {
                self.d.sim.on_response(peer, id, vec![resp_status(StatusCode::NotFound)]);
                Delivered::Err(ErrClass::NotFound)
            }
            Outcome::InvalidStatus => {
                self.d.sim.on_response(peer, id, vec![resp_status(StatusCode::Invalid)]);
                Delivered::Err(ErrClass::InvalidResponse)
            }
            Outcome::Fail(k) => {
                let f = failure_kind(k);
                self.d.sim.on_failure(peer, id, f);
                Delivered::Err(ErrClass::Outbound(f))
            }
        };
        self.reqs[ri].sends[si].delivered = Some(delivered);
    }

    /// Attribute and check the sends observed during the last `run_for`, then read the callers' channels.
    fn observe(&mut self, obs: &mut Obs) -> Result<(), Failure> {
        for s in self.d.take_sends() {
            let Some(ri) = self.reqs.iter().position(|r| r.request == s.request) else {
                return obs.fail("C32:unknown-request-sent", format!("a request nobody submitted was sent: {:?}", s.request));
            };
            let Some(pi) = self.d.peer_index(&s.peer) else {
                return obs.fail("C32:sent-to-unknown-peer", format!("request #{ri} sent to unknown peer {}", s.peer));
            };
            let st = self.d.state(pi);
            let attempt = self.reqs[ri].sends.len() + 1;
            let r = &self.reqs[ri];
            obs.check(r.submitted, "C32:unknown-request-sent", || format!("request #{ri} sent before it was submitted"))?;
            obs.check(attempt <= 3, "C32:more-than-three-sends", || format!("request #{ri} ({:?}) sent a {attempt}th time", r.request))?;
            obs.check(st.connected, "C32:sent-to-disconnected-peer", || format!("request #{ri} attempt {attempt} sent to peer #{pi} which is not connected ({st:?})"))?;
            if attempt == 3 {
                obs.check(st.archival, "C32:third-send-not-archival", || format!("request #{ri}: third send went to peer #{pi} which is not archival ({st:?})"))?;
                obs.label("third-send-to-archival-peer");
            }
            obs.check(r.answer.is_none(), "C32:send-after-answer", || format!("request #{ri} sent again (attempt {attempt}) after its caller had been answered with {:?}", r.answer.as_ref().map(|a| a.as_ref().map(|v| v.len()))))?;
            obs.check(!r.dropped, "C32:send-after-caller-dropped", || format!("request #{ri} sent (attempt {attempt}) although its caller had dropped the receiver"))?;
            if r.sends.iter().any(|x| x.delivered.is_none()) {
                // two copies of one request in flight: the harness cannot order their outcomes
                BUDGET_OVERRUN.store(true, Ordering::SeqCst);
            }
            if attempt >= 2 {
                obs.label("retry-sent");
            }
            self.reqs[ri].sends.push(Send {
                id: s.id,
                peer: pi,
                delivered: None,
            });
        }

        for ri in 0..self.reqs.len() {
            if self.reqs[ri].answer.is_some() || self.reqs[ri].rx.is_none() {
                continue;
            }
            let res = self.reqs[ri].rx.as_mut().unwrap().try_recv();
            let r = &self.reqs[ri];
            let delivered: Vec<&Delivered> = r.sends.iter().filter_map(|s| s.delivered.as_ref()).collect();
            match res {
                Err(TryRecvError::Empty) => {}
                Err(TryRecvError::Closed) => {
                    return obs.fail("C32:caller-channel-closed", format!("request #{ri}: the caller's channel was closed without a value"));
                }
                Ok(Ok(hs)) => {
                    let first_valid = delivered.iter().find_map(|d| match d {
                        Delivered::Valid(v) => Some(v),
                        _ => None,
                    });
                    match first_valid {
                        Some(v) => {
                            obs.check(hs.len() == v.len() && hs.iter().zip(v.iter()).all(|(a, b)| a.hash() == b.hash() && a.height() == b.height()), "C32:answer-differs-from-first-valid-response", || {
                                format!(
                                    "request #{ri}: caller received heights {:?}, the first valid response had heights {:?}",
                                    hs.iter().map(|h| h.height()).collect::<Vec<_>>(),
                                    v.iter().map(|h| h.height()).collect::<Vec<_>>()
                                )
                            })?;
                        }
                        None => {
                            return obs.fail("C32:ok-answer-without-valid-response", format!("request #{ri}: caller received Ok({} headers) but no valid response was delivered ({delivered:?})", hs.len()));
                        }
                    }
                    obs.label(match delivered.len() {
                        1 => "answered-ok-first-attempt",
                        2 => "answered-ok-second-attempt",
                        _ => "answered-ok-third-attempt",
                    });
                    self.reqs[ri].answer = Some(Ok(hs));
                }
                Ok(Err(e)) => {
                    let class = err_class(&e);
                    if class == ErrClass::Cancelled {
                        obs.check(self.stopped, "C32:cancelled-without-stop", || format!("request #{ri}: caller received RequestCancelled although the client was not stopped"))?;
                        obs.label("cancelled-by-stop");
                    } else {
                        obs.check(!delivered.iter().any(|d| matches!(d, Delivered::Valid(_))), "C32:error-answer-despite-valid-response", || {
                            format!("request #{ri}: caller received error {class:?} although a valid response had been delivered")
                        })?;
                        obs.check(r.sends.iter().all(|s| s.delivered.is_some()), "C32:error-answer-while-attempt-outstanding", || {
                            format!("request #{ri}: caller received error {class:?} while an attempt is still outstanding")
                        })?;
                        match delivered.last() {
                            Some(Delivered::Err(last)) => {
                                obs.check(*last == class, "C32:error-is-not-the-last-error", || {
                                    format!("request #{ri}: caller received {class:?} but the last attempt failed with {last:?} (attempts: {delivered:?})")
                                })?;
                            }
                            _ => {
                                return obs.fail("C32:error-answer-without-failed-attempt", format!("request #{ri}: caller received {class:?} ({e}) without any failed attempt"));
                            }
                        }
                        // "final error": the client gives up only when its three attempts are used up (the other
                        // non-retryable causes, invalid request and stop, are not generated / handled above)
                        obs.check(delivered.len() == 3, "C32:error-answer-before-final-attempt", || {
                            format!("request #{ri}: caller received {class:?} after only {} attempt(s) ({delivered:?}); a retryable error is final only after the third attempt", delivered.len())
                        })?;
                        obs.label("answered-final-error-after-three-attempts");
                    }
                    self.reqs[ri].answer = Some(Err(class));
                }
            }
        }
        Ok(())
    }
}

fn run_case(case: &Case, obs: &mut Obs) -> Result<(), Failure> {
    let rt = runtime();
    rt.block_on(async {
        let pool = HeaderPool::new(case.seed, START, MAX_REQS * STRIDE + 2)?;
        let reqs: Vec<Req> = case
            .reqs
            .iter()
            .enumerate()
            .map(|(i, spec)| Req {
                request: World::request_for(&pool, i, &spec.kind),
                submitted: false,
                submitted_after_stop: false,
                rx: None,
                dropped: false,
                sends: Vec::new(),
                answer: None,
            })
            .collect();
        let mut w = World {
            d: Driver::new(&case.peers),
            pool,
            reqs,
            stopped: false,
        };
        let np = case.peers.len();
        for _ in 0..case.initial {
            w.submit_next(obs);
        }
        let stop_at = case.stop_before.map(|s| (s as usize).min(case.steps.len()));

        for k in 0..=case.steps.len() {
            if stop_at == Some(k) && !w.stopped {
                w.d.sim.stop();
                w.stopped = true;
                obs.label("stopped");
                w.d.run_for(SETTLE).await;
                w.observe(obs)?;
                // after `stop` every caller has an answer
                for (ri, r) in w.reqs.iter().enumerate() {
                    if r.submitted && !r.dropped {
                        obs.check(r.answer.is_some(), "C32:no-answer-after-stop", || format!("request #{ri}: caller has no answer after stop ({} sends)", r.sends.len()))?;
                    }
                }
            }
            let Some(step) = case.steps.get(k) else { break };
            match step {
                Step::Submit => {
                    w.submit_next(obs);
                    w.d.run_for(SETTLE).await;
                }
                Step::Tick => w.d.run_for(TICK).await,
                Step::Deliver(sel) => {
                    let out = w.outstanding();
                    if !out.is_empty() {
                        let (ri, si) = out[pick(*sel, out.len())];
                        if w.reqs[ri].dropped {
                            obs.label("answer-delivered-after-caller-dropped");
                        }
                        if w.stopped {
                            obs.label("answer-delivered-after-stop");
                        }
                        w.deliver(case, ri, si, false);
                        w.d.run_for(SETTLE).await;
                    }
                }
                Step::DropCaller(sel) => {
                    let live: Vec<usize> = (0..w.reqs.len()).filter(|&i| w.reqs[i].submitted && !w.reqs[i].dropped && w.reqs[i].answer.is_none()).collect();
                    if !live.is_empty() {
                        let ri = live[pick(*sel, live.len())];
                        // do not lose an answer that is already in the channel
                        w.observe(obs)?;
                        if w.reqs[ri].answer.is_none() {
                            w.reqs[ri].dropped = true;
                            w.reqs[ri].rx = None;
                            obs.label(if w.reqs[ri].sends.iter().any(|s| s.delivered.is_none()) { "caller-dropped-with-attempt-in-flight" } else { "caller-dropped-while-pending" });
                        }
                        w.d.run_for(SETTLE).await;
                    }
                }
                Step::Connect(sel) if np > 0 => {
                    let i = pick(*sel, np);
                    let id = w.d.peers[i];
                    w.d.sim.add_connection(&id, i);
                    w.d.run_for(SETTLE).await;
                }
                Step::Disconnect(sel) if np > 0 => {
                    let i = pick(*sel, np);
                    let id = w.d.peers[i];
                    if w.d.state(i).connected {
                        w.d.sim.remove_connection(&id, i);
                        // libp2p fails every outstanding request on a closed connection
                        let mut failed = false;
                        for (ri, si) in w.outstanding() {
                            if w.reqs[ri].sends[si].peer == i {
                                w.deliver(case, ri, si, true);
                                failed = true;
                            }
                        }
                        if failed {
                            obs.label("peer-disconnected-with-request-in-flight");
                        }
                    }
                    w.d.run_for(SETTLE).await;
                }
                Step::MarkArchival(sel) if np > 0 => {
                    let i = pick(*sel, np);
                    let id = w.d.peers[i];
                    w.d.sim.mark_as_archival(&id);
                    w.d.run_for(SETTLE).await;
                }
                _ => {}
            }
            w.observe(obs)?;
        }

        // ---- drain to quiescence: submit what is left, then tick / deliver until nothing moves
        while w.reqs.iter().any(|r| !r.submitted) {
            w.submit_next(obs);
        }
        let mut rounds = 0;
        loop {
            w.d.run_for(TICK).await;
            w.observe(obs)?;
            let out = w.outstanding();
            if out.is_empty() {
                break;
            }
            for (ri, si) in out {
                w.deliver(case, ri, si, false);
                w.d.run_for(SETTLE).await;
                w.observe(obs)?;
            }
            rounds += 1;
            if rounds > 20 {
                BUDGET_OVERRUN.store(true, Ordering::SeqCst);
                return Ok(());
            }
        }
        // one more tick with nothing outstanding: nothing may move any more
        w.d.run_for(TICK).await;
        w.observe(obs)?;
        if !w.outstanding().is_empty() {
            BUDGET_OVERRUN.store(true, Ordering::SeqCst);
            return Ok(());
        }

        // ---- verdict per request at the quiescent point
        let any_connected = (0..np).any(|i| w.d.state(i).connected);
        let archival_connected = (0..np).any(|i| { let s = w.d.state(i); s.connected && s.archival });
        for (ri, r) in w.reqs.iter().enumerate() {
            let attempts = r.sends.len();
            let digest = digest_of(&(case.seed, ri, &case.reqs[ri], &case.peers, attempts, r.dropped, r.answer.as_ref().map(|a| a.is_ok())));
            obs.eval((attempts >= 2).then_some(digest));
            if r.dropped {
                obs.label("request-of-dropped-caller");
                continue;
            }
            if w.stopped {
                obs.check(r.answer.is_some(), "C32:no-answer-after-stop", || format!("request #{ri}: caller has no answer although the client was stopped"))?;
                if r.submitted_after_stop {
                    obs.check(matches!(r.answer, Some(Err(ErrClass::Cancelled))), "C32:request-after-stop-not-cancelled", || format!("request #{ri} submitted after stop was answered with {:?}", r.answer.as_ref().map(|a| a.as_ref().map(|v| v.len()))))?;
                }
                continue;
            }
            if r.answer.is_some() {
                continue;
            }
            obs.check(!r.sends.iter().any(|s| matches!(s.delivered, Some(Delivered::Valid(_)))), "C32:valid-response-not-answered", || format!("request #{ri}: a valid response was delivered but the caller has no answer at quiescence"))?;
            // unanswered at quiescence: legitimate only while no peer of the required kind is connected
            obs.check(attempts < 3, "C32:unanswered-after-three-attempts", || format!("request #{ri}: three attempts were answered but the caller has no answer"))?;
            if attempts < 2 {
                obs.check(!any_connected, "C32:unanswered-with-connected-peer-at-quiescence", || {
                    format!("request #{ri}: {attempts} attempt(s) made, all answered; a connected peer exists and scheduling ticks passed, but the request was neither retried nor answered")
                })?;
                obs.label("waiting-for-any-peer-at-quiescence");
            } else {
                obs.check(!archival_connected, "C32:unanswered-with-archival-peer-at-quiescence", || {
                    format!("request #{ri}: two attempts failed; a connected archival peer exists and scheduling ticks passed, but the third attempt was not made")
                })?;
                obs.label("waiting-for-archival-peer-at-quiescence");
                if w.d.need_archival > 0 {
                    obs.label("need-archival-peers-event");
                }
            }
        }
        Ok(())
    })
}

pub fn run(ctx: &mut Ctx) {
    ctx.assume("hook lumina_node::verif::header_ex_client_sim forwards 1:1 to HeaderExClientHandler / PeerTracker (real handler, real tracker; only the RequestSender is a recorder)");
    ctx.assume("peer state (connected / archival) at send time is read from the real PeerTracker right after the scheduling call, with no harness action in between");
    ctx.assume("the client picks peers with thread_rng: the oracle is independent of the choice (sends are attributed by the unique origin/hash of each request and judged against the peer actually chosen)");
    ctx.assume("when the harness disconnects a peer it fails the requests in flight to that peer with ConnectionClosed, as libp2p request-response does");
    ctx.assume("'at most one answer' is structural (tokio oneshot); what is checked is which value arrives and that nothing is sent for the request afterwards");
    ctx.assume("liveness is judged only at quiescence: every outstanding answer delivered, >= 2 scheduling ticks (250 ms virtual each) passed with no further send; 'no send after the caller dropped its receiver' is taken from DESIGN.md's mutant list (caller cancellation)");
    ctx.essential(&[
        "retry-sent",
        "third-send-to-archival-peer",
        "answered-ok-first-attempt",
        "answered-ok-second-attempt",
        "answered-ok-third-attempt",
        "answered-final-error-after-three-attempts",
        "waiting-for-archival-peer-at-quiescence",
        "waiting-for-any-peer-at-quiescence",
        "cancelled-by-stop",
        "caller-dropped-with-attempt-in-flight",
        "peer-disconnected-with-request-in-flight",
    ]);
    ctx.set_shrink_iters(800);
    let cases = ctx.tier.pick(4000, 120_000);
    let max_steps = ctx.tier.pick(40, 60);
    let reps = replay_reps();
    ctx.proptest(
        "retry-scripts",
        "per case: 0..8 peers (connected?, trusted?, archival?), 1..6 non-head requests (height ranges of 1..3 / by hash) with unique origins, a 3-entry outcome script per request (valid, valid prefix, invalid header, wrong header, too many, NotFound, Invalid status, outbound failure) and 0..40 harness steps (submit, tick, deliver one outstanding answer, drop a caller, connect / disconnect / mark-archival a peer) with an optional stop; then drain to quiescence. One evaluation per request; non-trivial = request that was sent at least twice (a retry happened); distinct by (seed, request, script, peer population, attempts, fate)",
        cases,
        move || case_strategy(max_steps),
        move |case, obs| {
            for _ in 0..reps {
                run_case(case, obs)?;
            }
            Ok(())
        },
    );
    if BUDGET_OVERRUN.load(Ordering::SeqCst) {
        ctx.inconclusive("a simulation exceeded the harness's step budget or had two copies of one request in flight, which the harness cannot order");
    }
}
