//! C30 — Header-ex wire framing round-trips under any chunking.
//!
//! The real `HeaderCodec::{write_request, write_response, read_request, read_response}` (through the
//! `verif::header_ex::codec_*` hooks) are driven over an in-memory `AsyncWrite` and a scripted `AsyncRead`
//! that hands out generated chunk sizes with `Poll::Pending` in between (and, optionally, stalls for good so
//! that the codec's time limit cuts the stream; the runtime clock is paused, so this costs no wall time).
//!
//! Oracles
//!   * what the writer emits is `varint(len) || prost(message)` per message (independent framing);
//!   * round trip: every message that fits the size limit reads back equal under every chunking;
//!   * truncation at byte p: a request => Err; a response stream => Err iff no complete message lies within
//!     the first p bytes, else exactly the prefix of complete messages (DESIGN §7: "never a wrong value");
//!   * garbage / mutated / trailing bytes: result equals an independent reference parser (own varint length
//!     prefix rules + prost decode of the body) applied to the bytes the codec may look at, or Err;
//!   * the reader never takes more than the size limit from the stream;
//!   * a panic anywhere is a violation.
use std::io;
use std::pin::Pin;
use std::task::{Context, Poll};

use celestia_proto::p2p::pb::{HeaderRequest, HeaderResponse};
use futures::io::{AsyncRead, AsyncWrite};
use lumina_node::verif::header_ex as hx;
use lv_common::prelude::*;
use lv_common::{Prng, no_panic};
use lv_gen::headerex::{ReqData, make_request, panic_signature};
use lv_gen::mutate::{ByteMut, apply_all, byte_mut_strategy};
use prost::Message;

// ------------------------------------------------------------------ recipes

#[derive(Clone, Debug, Serialize, Deserialize)]
pub struct RespSpec {
    pub seed: u64,
    pub len: u32,
    pub status: i32,
}

#[derive(Clone, Debug, Serialize, Deserialize)]
pub enum MsgSpec {
    Request { data: ReqData, amount: u64 },
    Responses(Vec<RespSpec>),
}

/// Chunk plan of the scripted reader/writer: sizes are cycled; bit i of `pending` says whether read i
/// (mod 32) is preceded by one `Poll::Pending` (with an immediate wake-up).
#[derive(Clone, Debug, Serialize, Deserialize)]
pub struct Chunking {
    pub sizes: Vec<u32>,
    pub pending: u32,
}

#[derive(Clone, Debug, Serialize, Deserialize)]
pub enum PrefixForm {
    /// length prefix replaced by this value (canonical varint)
    Value(u64),
    /// true length +/- delta
    Delta(i8),
    /// the true length, padded to `total` bytes with 0x80 continuation bytes and a final 0x00
    Overlong(u8),
    /// ten bytes with the continuation bit set on the first nine and `last` as the tenth
    TenByte(u8),
    /// eleven continuation bytes
    Endless,
}

#[derive(Clone, Debug, Serialize, Deserialize)]
pub enum Garbage {
    Random { seed: u64, len: u16 },
    Mutated(Vec<ByteMut>),
    LenPrefix { msg: u16, form: PrefixForm },
    Trailing { seed: u64, len: u16 },
    /// bytes of the honest stream, then the honest stream again (a second request / more responses)
    Doubled,
}

#[derive(Clone, Debug, Serialize, Deserialize)]
pub struct Case {
    pub msg: MsgSpec,
    pub chunkings: Vec<Chunking>,
    /// extra truncation points for streams too large to cut at every byte
    pub cuts: Vec<u32>,
    /// cut points at which the stream stalls (no EOF) instead of ending
    pub stalls: Vec<u32>,
    pub garbage: Vec<Garbage>,
}

#[derive(Clone, Debug, Serialize, Deserialize)]
pub struct LimitCase {
    pub seed: u64,
    pub n_msgs: u8,
    /// total wire size = limit + delta
    pub delta: i32,
    pub chunking: Chunking,
}

// ------------------------------------------------------------------ strategies

fn u64_boundary() -> impl Strategy<Value = u64> {
    prop_oneof![
        3 => prop_oneof![
            Just(0u64), Just(1), Just(127), Just(128), Just(511), Just(512), Just(16383), Just(16384), Just(u32::MAX as u64), Just(1u64 << 32),
            Just(i64::MAX as u64), Just(1u64 << 63), Just(u64::MAX - 1), Just(u64::MAX)
        ],
        2 => 0u64..1000,
        2 => any::<u64>(),
    ]
}

fn req_msg_strategy() -> impl Strategy<Value = MsgSpec> {
    let data = prop_oneof![
        1 => Just(ReqData::None),
        4 => u64_boundary().prop_map(ReqData::Origin),
        3 => prop::collection::vec(any::<u8>(), 32..=32).prop_map(ReqData::Hash),
        2 => prop::collection::vec(any::<u8>(), 0..80).prop_map(ReqData::Hash),
        // around the 1024-byte request limit (wire = 2 + 3 + len [+ amount field])
        2 => (990usize..1040, any::<u8>()).prop_map(|(n, b)| ReqData::Hash(vec![b; n])),
        1 => (1040usize..3000, any::<u8>()).prop_map(|(n, b)| ReqData::Hash(vec![b; n])),
    ];
    (data, u64_boundary()).prop_map(|(data, amount)| MsgSpec::Request { data, amount })
}

fn resp_strategy(max_body: u32) -> impl Strategy<Value = RespSpec> {
    let len = prop_oneof![
        2 => Just(0u32),
        6 => 0u32..64,
        2 => prop_oneof![Just(126u32), Just(127), Just(128), Just(129), Just(16382), Just(16383), Just(16384)],
        3 => 64u32..2000,
        2 => 2000u32..=max_body,
    ];
    let status = prop_oneof![
        3 => Just(1i32), 1 => Just(0i32), 1 => Just(2i32),
        1 => prop_oneof![Just(3i32), Just(-1), Just(i32::MAX), Just(i32::MIN), any::<i32>()]
    ];
    (any::<u64>(), len, status).prop_map(move |(seed, len, status)| RespSpec { seed, len: len.min(max_body), status })
}

fn resp_msg_strategy(max_msgs: usize, max_body: u32) -> impl Strategy<Value = MsgSpec> {
    prop_oneof![
        3 => prop::collection::vec(resp_strategy(max_body), 1..=3),
        3 => prop::collection::vec(resp_strategy(max_body), 1..=12),
        1 => prop::collection::vec(resp_strategy(max_body), 12..=max_msgs),
    ]
    .prop_map(MsgSpec::Responses)
}

fn chunking_strategy() -> impl Strategy<Value = Chunking> {
    let sizes = prop_oneof![
        2 => Just(vec![1u32]),
        1 => Just(vec![2u32]),
        1 => Just(vec![3u32]),
        1 => Just(vec![u32::MAX]),
        3 => prop::collection::vec(prop_oneof![3 => 1u32..8, 2 => 1u32..200, 1 => 1u32..70000], 1..6),
    ];
    (sizes, prop_oneof![Just(0u32), Just(u32::MAX), any::<u32>()]).prop_map(|(sizes, pending)| Chunking { sizes, pending })
}

fn garbage_strategy() -> impl Strategy<Value = Garbage> {
    let form = prop_oneof![
        3 => prop_oneof![
            Just(0u64), Just(1), Just(127), Just(128), Just(1023), Just(1024), Just(1025), Just(10 * 1024 * 1024 - 1), Just(10 * 1024 * 1024),
            Just(10 * 1024 * 1024 + 1), Just(u32::MAX as u64), Just(1u64 << 63), Just(u64::MAX), any::<u64>()
        ].prop_map(PrefixForm::Value),
        3 => prop_oneof![Just(1i8), Just(-1i8), -4i8..=4].prop_map(PrefixForm::Delta),
        2 => (2u8..=10).prop_map(PrefixForm::Overlong),
        2 => prop_oneof![Just(0u8), Just(1), Just(2), Just(0x7f), Just(0x80), Just(0x81), any::<u8>()].prop_map(PrefixForm::TenByte),
        1 => Just(PrefixForm::Endless),
    ];
    prop_oneof![
        2 => (any::<u64>(), prop_oneof![0u16..16, 0u16..400, 0u16..3000]).prop_map(|(seed, len)| Garbage::Random { seed, len }),
        4 => prop::collection::vec(byte_mut_strategy(), 1..4).prop_map(Garbage::Mutated),
        4 => (any::<u16>(), form).prop_map(|(msg, form)| Garbage::LenPrefix { msg, form }),
        2 => (any::<u64>(), prop_oneof![1u16..8, 1u16..200, 1000u16..1100]).prop_map(|(seed, len)| Garbage::Trailing { seed, len }),
        1 => Just(Garbage::Doubled),
    ]
}

fn case_strategy(max_msgs: usize, max_body: u32, n_garbage: usize) -> impl Strategy<Value = Case> {
    (
        prop_oneof![2 => req_msg_strategy(), 5 => resp_msg_strategy(max_msgs, max_body)],
        prop::collection::vec(chunking_strategy(), 5..=5),
        prop::collection::vec(any::<u32>(), 12..=12),
        prop::collection::vec(any::<u32>(), 2..=2),
        prop::collection::vec(garbage_strategy(), n_garbage..=n_garbage),
    )
        .prop_map(|(msg, chunkings, cuts, stalls, garbage)| Case { msg, chunkings, cuts, stalls, garbage })
}

// ------------------------------------------------------------------ independent framing reference

fn put_varint(out: &mut Vec<u8>, mut v: u64) {
    loop {
        let b = (v & 0x7f) as u8;
        v >>= 7;
        if v == 0 {
            out.push(b);
            return;
        }
        out.push(b | 0x80);
    }
}

/// Protobuf base-128 length prefix: at most ten bytes, the terminating byte (< 0x80) must be among them,
/// and a tenth byte may only carry bit 63. Returns (value, bytes consumed).
fn ref_len_prefix(b: &[u8]) -> Option<(u64, usize)> {
    let mut v: u64 = 0;
    for i in 0..10 {
        let byte = *b.get(i)?;
        if i == 9 && byte >= 2 {
            return None;
        }
        v |= ((byte & 0x7f) as u64) << (7 * i);
        if byte < 0x80 {
            return Some((v, i + 1));
        }
    }
    None
}

/// one frame: (body, rest)
fn ref_frame(b: &[u8]) -> Option<(&[u8], &[u8])> {
    let (len, used) = ref_len_prefix(b)?;
    let rest = &b[used..];
    if (rest.len() as u64) < len {
        return None;
    }
    let len = len as usize;
    Some((&rest[..len], &rest[len..]))
}

fn ref_parse_request(b: &[u8]) -> Option<HeaderRequest> {
    let (body, _) = ref_frame(b)?;
    HeaderRequest::decode(body).ok()
}

fn ref_parse_responses(mut b: &[u8]) -> Option<Vec<HeaderResponse>> {
    let mut out = Vec::new();
    while let Some((body, rest)) = ref_frame(b) {
        match HeaderResponse::decode(body) {
            Ok(m) => out.push(m),
            Err(_) => break,
        }
        b = rest;
    }
    (!out.is_empty()).then_some(out)
}

// ------------------------------------------------------------------ scripted I/O

struct ScriptReader<'a> {
    data: &'a [u8],
    pos: usize,
    sizes: Vec<usize>,
    idx: usize,
    pending: u32,
    pended: bool,
    /// deliver at most this many bytes, then stay Pending forever without waking (the peer stalls)
    stall_at: Option<usize>,
    min_chunk: usize,
}

impl<'a> ScriptReader<'a> {
    fn new(data: &'a [u8], c: &Chunking, stall_at: Option<usize>) -> Self {
        // bound the number of polls for large streams
        let min_chunk = (data.len() / 3000).max(1);
        ScriptReader {
            data,
            pos: 0,
            sizes: c.sizes.iter().map(|s| (*s as usize).max(1)).collect(),
            idx: 0,
            pending: c.pending,
            pended: false,
            stall_at,
            min_chunk,
        }
    }
}

impl AsyncRead for ScriptReader<'_> {
    fn poll_read(mut self: Pin<&mut Self>, cx: &mut Context<'_>, buf: &mut [u8]) -> Poll<io::Result<usize>> {
        let this = &mut *self;
        let end = match this.stall_at {
            Some(s) => s.min(this.data.len()),
            None => this.data.len(),
        };
        if this.stall_at.is_some() && this.pos >= end {
            return Poll::Pending; // never woken: only the codec's time limit gets out of this
        }
        if !this.pended && (this.pending >> (this.idx % 32)) & 1 == 1 {
            this.pended = true;
            cx.waker().wake_by_ref();
            return Poll::Pending;
        }
        this.pended = false;
        let want = this.sizes[this.idx % this.sizes.len()].max(this.min_chunk);
        this.idx += 1;
        let n = want.min(buf.len()).min(end - this.pos);
        buf[..n].copy_from_slice(&this.data[this.pos..this.pos + n]);
        this.pos += n;
        Poll::Ready(Ok(n))
    }
}

struct ScriptWriter {
    out: Vec<u8>,
    sizes: Vec<usize>,
    idx: usize,
    pending: u32,
    pended: bool,
    min_chunk: usize,
}

impl ScriptWriter {
    fn new(c: &Chunking, expect_len: usize) -> Self {
        ScriptWriter {
            out: Vec::new(),
            sizes: c.sizes.iter().map(|s| (*s as usize).max(1)).collect(),
            idx: 0,
            pending: c.pending,
            pended: false,
            min_chunk: (expect_len / 3000).max(1),
        }
    }
}

impl AsyncWrite for ScriptWriter {
    fn poll_write(mut self: Pin<&mut Self>, cx: &mut Context<'_>, buf: &[u8]) -> Poll<io::Result<usize>> {
        let this = &mut *self;
        if !this.pended && (this.pending >> (this.idx % 32)) & 1 == 1 {
            this.pended = true;
            cx.waker().wake_by_ref();
            return Poll::Pending;
        }
        this.pended = false;
        let want = this.sizes[this.idx % this.sizes.len()].max(this.min_chunk);
        this.idx += 1;
        let n = want.min(buf.len());
        this.out.extend_from_slice(&buf[..n]);
        Poll::Ready(Ok(n))
    }
    fn poll_flush(self: Pin<&mut Self>, _: &mut Context<'_>) -> Poll<io::Result<()>> {
        Poll::Ready(Ok(()))
    }
    fn poll_close(self: Pin<&mut Self>, _: &mut Context<'_>) -> Poll<io::Result<()>> {
        Poll::Ready(Ok(()))
    }
}

/// current-thread runtime with a paused clock, re-created after a panic unwound through `block_on`
struct Rt(Option<tokio::runtime::Runtime>);

impl Rt {
    fn new() -> Rt {
        Rt(None)
    }
    fn run<T>(&mut self, prop_sig: &str, f: impl Future<Output = T>) -> Result<T, Failure> {
        let rt = self
            .0
            .take()
            .unwrap_or_else(|| tokio::runtime::Builder::new_current_thread().enable_time().start_paused(true).build().unwrap());
        match no_panic(|| rt.block_on(f)) {
            Ok(v) => {
                self.0 = Some(rt);
                Ok(v)
            }
            Err(rec) => Err(Failure::new(panic_signature("C30", &rec), format!("{prop_sig}: the codec panicked: {rec}"))),
        }
    }
}

// ------------------------------------------------------------------ the check

enum Value {
    Req(HeaderRequest),
    Resps(Vec<HeaderResponse>),
}

fn build_value(m: &MsgSpec) -> Value {
    match m {
        MsgSpec::Request { data, amount } => Value::Req(make_request(data, *amount)),
        MsgSpec::Responses(rs) => Value::Resps(
            rs.iter()
                .map(|r| HeaderResponse {
                    body: Prng::new(r.seed).bytes(r.len as usize),
                    status_code: r.status,
                })
                .collect(),
        ),
    }
}

/// independent wire image and the end offset of every message
fn ref_wire(v: &Value) -> (Vec<u8>, Vec<usize>) {
    let mut out = Vec::new();
    let mut ends = Vec::new();
    let mut put = |body: Vec<u8>, out: &mut Vec<u8>| {
        put_varint(out, body.len() as u64);
        out.extend_from_slice(&body);
        ends.push(out.len());
    };
    match v {
        Value::Req(r) => put(r.encode_to_vec(), &mut out),
        Value::Resps(rs) => {
            for r in rs {
                put(r.encode_to_vec(), &mut out);
            }
        }
    }
    (out, ends)
}

fn hexhead(b: &[u8]) -> String {
    let n = b.len().min(48);
    format!("{}{} ({} bytes)", hex::encode(&b[..n]), if b.len() > n { "…" } else { "" }, b.len())
}

fn short_resps(v: &[HeaderResponse]) -> String {
    let parts: Vec<String> = v.iter().take(5).map(|r| format!("(status {}, body {} B)", r.status_code, r.body.len())).collect();
    format!("{} msgs [{}{}]", v.len(), parts.join(", "), if v.len() > 5 { ", …" } else { "" })
}

struct Limits {
    req: usize,
    resp: usize,
}

/// read `stream` as a request through the real codec
fn read_req(rt: &mut Rt, stream: &[u8], c: &Chunking, stall: Option<usize>, lim: &Limits, what: &str, obs: &mut Obs) -> Result<Option<HeaderRequest>, Failure> {
    let mut rd = ScriptReader::new(stream, c, stall);
    let r = rt.run(what, hx::codec_read_request(&mut rd))?;
    if rd.pos > lim.req {
        obs.fail("C30:read-beyond-size-limit", format!("{what}: read_request consumed {} bytes, the request size limit is {}", rd.pos, lim.req))?;
    }
    Ok(r.ok())
}

fn read_resps(rt: &mut Rt, stream: &[u8], c: &Chunking, stall: Option<usize>, lim: &Limits, what: &str, obs: &mut Obs) -> Result<Option<Vec<HeaderResponse>>, Failure> {
    let mut rd = ScriptReader::new(stream, c, stall);
    let r = rt.run(what, hx::codec_read_response(&mut rd))?;
    if rd.pos > lim.resp {
        obs.fail("C30:read-beyond-size-limit", format!("{what}: read_response consumed {} bytes, the response size limit is {}", rd.pos, lim.resp))?;
    }
    Ok(r.ok())
}

fn make_garbage(g: &Garbage, wire: &[u8], ends: &[usize]) -> (Vec<u8>, &'static str) {
    match g {
        Garbage::Random { seed, len } => (Prng::new(*seed).bytes(*len as usize), "garbage-random"),
        Garbage::Mutated(m) => (apply_all(wire, m), "garbage-mutated"),
        Garbage::Trailing { seed, len } => {
            let mut v = wire.to_vec();
            v.extend(Prng::new(*seed).bytes(*len as usize));
            (v, "garbage-trailing-bytes")
        }
        Garbage::Doubled => {
            let mut v = wire.to_vec();
            v.extend_from_slice(wire);
            (v, "garbage-doubled-stream")
        }
        Garbage::LenPrefix { msg, form } => {
            let i = pick(*msg, ends.len());
            let start = if i == 0 { 0 } else { ends[i - 1] };
            let (true_len, used) = ref_len_prefix(&wire[start..]).expect("honest prefix");
            let mut p = Vec::new();
            let label = match form {
                PrefixForm::Value(v) => {
                    put_varint(&mut p, *v);
                    "garbage-length-prefix-value"
                }
                PrefixForm::Delta(d) => {
                    put_varint(&mut p, true_len.saturating_add_signed(*d as i64));
                    "garbage-length-prefix-off-by"
                }
                PrefixForm::Overlong(total) => {
                    put_varint(&mut p, true_len);
                    let total = (*total as usize).max(p.len());
                    if total > p.len() {
                        let last = p.len() - 1;
                        p[last] |= 0x80;
                        while p.len() < total - 1 {
                            p.push(0x80);
                        }
                        p.push(0x00);
                    }
                    "garbage-length-prefix-overlong"
                }
                PrefixForm::TenByte(last) => {
                    p.extend_from_slice(&[0x80 | (true_len as u8 & 0x7f), 0x80, 0x80, 0x80, 0x80, 0x80, 0x80, 0x80, 0x80, *last]);
                    "garbage-length-prefix-ten-bytes"
                }
                PrefixForm::Endless => {
                    p.extend_from_slice(&[0x80; 11]);
                    "garbage-length-prefix-endless"
                }
            };
            let mut v = wire[..start].to_vec();
            v.extend_from_slice(&p);
            v.extend_from_slice(&wire[start + used..]);
            (v, label)
        }
    }
}

fn run_case(case: &Case, lim: &Limits, cut_all_below: usize, obs: &mut Obs) -> Result<(), Failure> {
    let mut rt = Rt::new();
    let value = build_value(&case.msg);
    let (wire_ref, ends) = ref_wire(&value);
    let is_req = matches!(value, Value::Req(_));
    let limit = if is_req { lim.req } else { lim.resp };
    let fits = wire_ref.len() <= limit;
    let base_digest = digest_bytes(&wire_ref);
    obs.label(if is_req { "msg-request" } else { "msg-responses" });
    if !fits {
        obs.label("msg-exceeds-size-limit");
    }
    if let Value::Resps(v) = &value {
        obs.label(match v.len() {
            1 => "responses-1",
            2..=12 => "responses-2..12",
            _ => "responses-13+",
        });
    }

    // ---- write through the real codec (plain and chunked sink) and compare with the independent framing
    let wire = {
        let mut sink: Vec<u8> = Vec::new();
        let mut chunky = ScriptWriter::new(&case.chunkings[0], wire_ref.len());
        let (r1, r2) = match &value {
            Value::Req(r) => (
                rt.run("write_request", hx::codec_write_request(&mut sink, r.clone()))?,
                rt.run("write_request(chunked sink)", hx::codec_write_request(&mut chunky, r.clone()))?,
            ),
            Value::Resps(v) => (
                rt.run("write_response", hx::codec_write_response(&mut sink, v.clone()))?,
                rt.run("write_response(chunked sink)", hx::codec_write_response(&mut chunky, v.clone()))?,
            ),
        };
        obs.eval(None);
        obs.label("write");
        if let Err(e) = r1.and(r2) {
            obs.fail("C30:write-error", format!("writing to an in-memory sink failed: {e}"))?;
        }
        if fits && sink != wire_ref {
            obs.fail(
                "C30:wire-format",
                format!("the codec wrote {} but varint(len)||prost(message) framing is {}", hexhead(&sink), hexhead(&wire_ref)),
            )?;
        }
        if chunky.out != sink {
            obs.fail("C30:chunked-write-differs", format!("a sink accepting small chunks received {} instead of {}", hexhead(&chunky.out), hexhead(&sink)))?;
        }
        sink
    };

    // ---- round trip under every chunking
    for (ci, c) in case.chunkings.iter().enumerate() {
        let what = format!("round trip, chunking #{ci} {:?}", c);
        let one_byte = c.sizes.iter().all(|s| *s == 1);
        obs.eval(Some(base_digest ^ digest_of(c)));
        obs.label(if one_byte { "roundtrip-1-byte-chunks" } else if c.sizes == [u32::MAX] { "roundtrip-single-chunk" } else { "roundtrip-mixed-chunks" });
        if c.pending != 0 {
            obs.label("roundtrip-with-pending");
        }
        match &value {
            Value::Req(r) => {
                let got = read_req(&mut rt, &wire, c, None, lim, &what, obs)?;
                if fits {
                    if got.as_ref() != Some(r) {
                        obs.fail("C30:roundtrip-request", format!("{what}: wrote {r:?}, read back {got:?}; wire {}", hexhead(&wire)))?;
                    }
                } else {
                    obs.label("oversize-request");
                    if got.is_some() {
                        obs.fail(
                            "C30:oversize-request-accepted",
                            format!("{what}: a request of {} wire bytes (limit {}) was read back as {got:?}", wire.len(), lim.req),
                        )?;
                    }
                }
            }
            Value::Resps(v) => {
                let got = read_resps(&mut rt, &wire, c, None, lim, &what, obs)?;
                if fits && got.as_ref() != Some(v) {
                    obs.fail(
                        "C30:roundtrip-response",
                        format!("{what}: wrote {}, read back {}; wire {}", short_resps(v), got.as_ref().map(|g| short_resps(g)).unwrap_or("Err".into()), hexhead(&wire)),
                    )?;
                }
            }
        }
    }
    if !fits {
        return Ok(());
    }

    // ---- truncation: at every byte for small streams, at message boundaries +-1 and generated points otherwise
    let n = wire.len();
    let mut cuts: Vec<usize> = if n <= cut_all_below {
        (0..n).collect()
    } else {
        let mut v: Vec<usize> = vec![0, 1, n - 1];
        for e in &ends {
            v.extend([e.saturating_sub(1), *e, (*e + 1).min(n - 1)]);
        }
        v.extend(case.cuts.iter().map(|c| (*c as usize) % n));
        v.retain(|p| *p < n);
        v.sort_unstable();
        v.dedup();
        v
    };
    // stalled variants (time-limit truncation) at a couple of points
    let stall_points: Vec<usize> = case.stalls.iter().map(|c| (*c as usize) % (n + 1)).collect();
    let total_cuts = cuts.len();
    cuts.extend(stall_points.iter().copied());
    for (k, p) in cuts.iter().copied().enumerate() {
        let stalled = k >= total_cuts;
        let c = &case.chunkings[k % case.chunkings.len()];
        let complete = ends.iter().filter(|e| **e <= p).count();
        let what = format!("{} at byte {p} of {n} ({} complete messages before the cut)", if stalled { "stream stalls" } else { "stream truncated" }, complete);
        obs.eval(Some(base_digest ^ (p as u64).wrapping_mul(0x9E37_79B9_7F4A_7C15) ^ stalled as u64));
        obs.label(if stalled { "cut-by-stall" } else { "cut-by-eof" });
        let (data, stall) = if stalled { (&wire[..], Some(p)) } else { (&wire[..p], None) };
        match &value {
            Value::Req(r) => {
                let got = read_req(&mut rt, data, c, stall, lim, &what, obs)?;
                if p < n {
                    obs.label("truncated-request");
                    if got.is_some() {
                        obs.fail("C30:truncated-request-accepted", format!("{what}: read_request returned {got:?} for a strict prefix of {r:?}"))?;
                    }
                } else if got.as_ref() != Some(r) {
                    obs.fail("C30:roundtrip-request", format!("{what}: wrote {r:?}, read back {got:?}"))?;
                }
            }
            Value::Resps(v) => {
                let got = read_resps(&mut rt, data, c, stall, lim, &what, obs)?;
                if complete == 0 {
                    obs.label("truncated-responses-none-complete");
                    if let Some(g) = &got {
                        obs.fail("C30:truncated-response-wrong", format!("{what}: expected an error, read {}", short_resps(g)))?;
                    }
                } else {
                    obs.label(if complete < v.len() { "truncated-responses-prefix" } else { "truncated-responses-all" });
                    if got.as_deref() != Some(&v[..complete]) {
                        obs.fail(
                            "C30:truncated-response-wrong",
                            format!(
                                "{what}: expected exactly the first {complete} of {} messages, read {}",
                                v.len(),
                                got.as_ref().map(|g| short_resps(g)).unwrap_or("Err".into())
                            ),
                        )?;
                    }
                }
            }
        }
    }

    // ---- garbage, judged against the independent reference parser
    for (gi, g) in case.garbage.iter().enumerate() {
        let (stream, label) = make_garbage(g, &wire, &ends);
        let c = &case.chunkings[gi % case.chunkings.len()];
        let visible = &stream[..stream.len().min(limit)];
        let what = format!("{label} {}", hexhead(&stream));
        obs.eval(Some(digest_bytes(&stream) ^ is_req as u64));
        obs.label(label);
        if is_req {
            let exp = ref_parse_request(visible);
            let got = read_req(&mut rt, &stream, c, None, lim, &what, obs)?;
            obs.label(if exp.is_some() { "garbage-parses" } else { "garbage-rejected" });
            if got != exp {
                obs.fail("C30:garbage-differs-from-reference", format!("{what}: read_request gave {got:?}, the reference parser {exp:?}"))?;
            }
        } else {
            let exp = ref_parse_responses(visible);
            let got = read_resps(&mut rt, &stream, c, None, lim, &what, obs)?;
            obs.label(if exp.is_some() { "garbage-parses" } else { "garbage-rejected" });
            if got != exp {
                obs.fail(
                    "C30:garbage-differs-from-reference",
                    format!(
                        "{what}: read_response gave {}, the reference parser {}",
                        got.as_ref().map(|g| short_resps(g)).unwrap_or("Err".into()),
                        exp.as_ref().map(|g| short_resps(g)).unwrap_or("Err".into())
                    ),
                )?;
            }
        }
    }
    Ok(())
}

fn run_limit_case(case: &LimitCase, lim: &Limits, obs: &mut Obs) -> Result<(), Failure> {
    let mut rt = Rt::new();
    let n = case.n_msgs.max(1) as usize;
    let target = (lim.resp as i64 + case.delta as i64) as usize;
    // n messages with status 1; framing overhead per message: len prefix (<=4) + tag/len of body (<=5) + status (2)
    let mut prng = Prng::new(case.seed);
    let mut msgs: Vec<HeaderResponse> = Vec::new();
    // all but the last message share `target - 100_000` bytes; the last one (100..~101 kB, or the whole stream
    // when n == 1) stays clear of the sizes where a varint prefix grows, so the total can be hit exactly
    let share = if n > 1 { (target - 100_000) / (n - 1) } else { 0 };
    for _ in 0..n - 1 {
        let body_len = share.saturating_sub(16 + prng.below(64) as usize);
        msgs.push(HeaderResponse {
            body: prng.bytes(body_len),
            status_code: 1,
        });
    }
    msgs.push(HeaderResponse { body: vec![], status_code: 1 });
    let so_far: usize = if n > 1 { ref_wire(&Value::Resps(msgs[..n - 1].to_vec())).0.len() } else { 0 };
    let mut last_len = target.saturating_sub(so_far + 12);
    let mut sized = false;
    for _ in 0..16 {
        msgs[n - 1].body = prng.bytes(last_len);
        let total = so_far + {
            let b = msgs[n - 1].encode_to_vec();
            let mut p = Vec::new();
            put_varint(&mut p, b.len() as u64);
            p.len() + b.len()
        };
        if total == target {
            sized = true;
            break;
        }
        if total < target {
            last_len += target - total;
        } else {
            last_len -= total - target;
        }
    }
    if !sized {
        return Err(Failure::new("gen", format!("could not size a response list to exactly {target} bytes")));
    }
    let value = Value::Resps(msgs.clone());
    let (wire_ref, ends) = ref_wire(&value);
    assert_eq!(wire_ref.len(), target);
    let fits = target <= lim.resp;
    obs.eval(Some(digest_bytes(&wire_ref[..4096.min(wire_ref.len())]) ^ case.delta as u64 ^ (n as u64) << 40));
    obs.label(match case.delta {
        0 => "near-limit-exact",
        d if d < 0 => "near-limit-below",
        _ => "near-limit-above",
    });
    let mut sink: Vec<u8> = Vec::new();
    if let Err(e) = rt.run("write_response near the limit", hx::codec_write_response(&mut sink, msgs.clone()))? {
        obs.fail("C30:write-error", format!("writing to an in-memory sink failed: {e}"))?;
    }
    if fits && sink != wire_ref {
        obs.fail("C30:wire-format", format!("near-limit list: the codec wrote {} bytes, the reference framing has {}", sink.len(), wire_ref.len()))?;
    }
    let what = format!("list of {n} responses, {} wire bytes (limit {:+})", sink.len(), case.delta);
    let got = read_resps(&mut rt, &sink, &case.chunking, None, lim, &what, obs)?;
    if fits {
        if got.as_ref() != Some(&msgs) {
            obs.fail(
                "C30:roundtrip-response",
                format!("{what}: read back {}", got.as_ref().map(|g| short_resps(g)).unwrap_or("Err".into())),
            )?;
        }
    } else {
        // does not fit: the property promises nothing beyond "never a wrong value"
        let visible_complete = ends.iter().filter(|e| **e <= lim.resp).count();
        if sink == wire_ref {
            let exp = (visible_complete > 0).then(|| msgs[..visible_complete].to_vec());
            if got != exp {
                obs.fail(
                    "C30:oversize-response-wrong",
                    format!(
                        "{what}: expected the {visible_complete} messages that lie within the limit, read {}",
                        got.as_ref().map(|g| short_resps(g)).unwrap_or("Err".into())
                    ),
                )?;
            }
        } else if let Some(g) = &got {
            // the writer sent a partial list: whatever is read must be a prefix of the original
            if g.len() > msgs.len() || g[..] != msgs[..g.len()] {
                obs.fail("C30:oversize-response-wrong", format!("{what}: read {} which is not a prefix of the list", short_resps(g)))?;
            }
        }
    }
    Ok(())
}

pub fn run(ctx: &mut Ctx) {
    ctx.enable_crash_sentinel();
    let (lreq, lresp) = hx::codec_size_limits();
    ctx.assume("message bodies are encoded/decoded with prost (trusted); the framing (varint length prefix, completeness, message sequence) is re-implemented independently in the harness");
    ctx.assume("chunk sizes, Pending points, stalls, truncation points and garbage are generated; the codec's 1 s / 5 s time limits are exercised with a paused tokio clock (a stalled stream is cut by the time limit)");
    ctx.assume(&format!("size limits read from the code through the hook: request {lreq} bytes, response {lresp} bytes; a stream longer than the limit is judged on its first `limit` bytes"));
    ctx.essential(&[
        "msg-request",
        "msg-responses",
        "responses-13+",
        "roundtrip-1-byte-chunks",
        "roundtrip-single-chunk",
        "roundtrip-mixed-chunks",
        "roundtrip-with-pending",
        "oversize-request",
        "truncated-request",
        "truncated-responses-none-complete",
        "truncated-responses-prefix",
        "cut-by-stall",
        "garbage-random",
        "garbage-mutated",
        "garbage-trailing-bytes",
        "garbage-length-prefix-value",
        "garbage-length-prefix-overlong",
        "garbage-length-prefix-ten-bytes",
        "garbage-parses",
        "garbage-rejected",
        "near-limit-exact",
        "near-limit-below",
        "near-limit-above",
    ]);
    ctx.set_shrink_iters(300);
    let (cases, max_msgs, max_body, cut_all_below, n_garbage, limit_cases) = match ctx.tier {
        Tier::Quick => (3000u32, 40usize, 20_000u32, 200usize, 4usize, 16u32),
        Tier::Thorough => (100_000, 40, 20_000, 600, 6, 96),
    };
    let lim = Limits { req: lreq, resp: lresp };
    let rule = "per generated message (request with any origin/hash (0..3000 bytes)/no data and boundary amounts, or a list of 1..40 responses with bodies 0..20 kB and any status code): write through the codec (plain and chunked sink) and compare with independent framing; read back under 5 generated chunkings (1-byte, 2, 3, everything, mixed sizes; Pending before reads by a 32-bit mask); truncate at every byte (streams <= 200 B quick / 600 B thorough) or at every message boundary +-1 plus 12 generated points, plus 2 stall points cut by the time limit; 4..6 garbage streams (random bytes, byte/field mutations of the honest stream, rewritten length prefixes incl. off-by-one/huge/overlong/10-byte/endless varints, trailing bytes, doubled stream) judged against the reference parser. One evaluation per read. Non-trivial = every read (distinct by stream bytes + chunking / cut point)";
    {
        let lim = Limits { req: lreq, resp: lresp };
        ctx.proptest("framing", rule, cases, move || case_strategy(max_msgs, max_body, n_garbage), move |case, obs| run_case(case, &lim, cut_all_below, obs));
    }
    let rule_limit = "response lists whose wire size is exactly limit+delta, delta in {-2,-1,0} (must round-trip) and {+1,+2,+small} (does not fit: only the messages lying within the limit, never a wrong value; reader never consumes more than the limit), 1..12 messages, generated chunking with chunks >= 3.5 kB";
    ctx.proptest(
        "near-limit",
        rule_limit,
        limit_cases,
        || {
            (
                any::<u64>(),
                1u8..=12,
                prop_oneof![3 => Just(0i32), 2 => Just(-1), 1 => Just(-2), 2 => Just(1), 1 => Just(2), 1 => 3i32..5000, 1 => -5000i32..-2],
                chunking_strategy(),
            )
                .prop_map(|(seed, n_msgs, delta, chunking)| LimitCase { seed, n_msgs, delta, chunking })
        },
        move |case, obs| run_limit_case(case, &lim, obs),
    );
}
