//! C29 — Header-ex server answers every request correctly without crashing.
//!
//! Runs the real `HeaderExServerHandler` (through the `verif::header_ex::serve_request` hook: fresh handler,
//! `on_request_received`, poll until the mock `ResponseSender` gets the answer) over an `InMemoryStore`
//! filled with 0..N generated headers in 1..4 ranges with gaps, and compares the answer with a reference
//! written from the property sentence:
//!   * invalid request (no data, amount 0, head/hash with amount > 1, hash not 32 bytes) => exactly one INVALID;
//!   * head => the stored head, or one NOT_FOUND on an empty store;
//!   * height => the longest run of consecutive stored headers from the origin, capped at min(amount, 512),
//!     or one NOT_FOUND;
//!   * hash => that header, or one NOT_FOUND.
//! A panic of the handler is a violation ("responds without panicking"; overflow checks are on).
use std::collections::BTreeMap;
use std::sync::Arc;

use celestia_proto::p2p::pb::HeaderResponse;
use celestia_types::ExtendedHeader;
use lumina_node::store::{InMemoryStore, Store};
use lumina_node::verif::header_ex as hx;
use lv_common::prelude::*;
use lv_common::{Prng, no_panic};
use lv_gen::chain::{ChainSpec, TimeBase, build_chain, chain_strategy, simple_chain_spec};
use lv_gen::headerex::{ReqData, STATUS_INVALID, STATUS_NOT_FOUND, STATUS_OK, make_request, panic_signature, ref_request_is_valid};
use tendermint_proto::Protobuf;

const I64MAX: u64 = i64::MAX as u64;
const CAP: u64 = 512;

#[derive(Clone, Debug, Serialize, Deserialize)]
pub enum ChainStart {
    One,
    Small(u16),
    Mid(u64),
    /// the last header of the chain has height i64::MAX
    TopI64,
}

#[derive(Clone, Debug, Serialize, Deserialize)]
pub enum OriginSel {
    Stored(u16),
    InGap(u16),
    AboveHead(u8),
    BelowTail(u8),
    One,
    Zero,
    /// u64::MAX - k
    NearU64Max(u16),
    /// i64::MAX + k
    NearI64Max(i16),
    Abs(u64),
}

#[derive(Clone, Debug, Serialize, Deserialize)]
pub enum AmountSel {
    Fixed(u64),
    /// length of the stored run starting at the origin, plus delta
    RunLen(i8),
}

#[derive(Clone, Debug, Serialize, Deserialize)]
pub enum HashSel {
    Stored(u16),
    /// a valid header of the same chain that is not in the store (sits in a gap)
    NotStored(u16),
    Random(u64),
    WrongLen { len: u8, seed: u64 },
    /// a stored hash cut to 31 bytes / extended to 33 bytes
    StoredCut(u16),
    StoredExtended(u16),
}

#[derive(Clone, Debug, Serialize, Deserialize)]
pub enum ReqSel {
    Head,
    Height { origin: OriginSel, amount: AmountSel },
    Hash { which: HashSel, amount: u64 },
    NoData { amount: u64 },
}

#[derive(Clone, Debug, Serialize, Deserialize)]
pub struct Case {
    pub chain: ChainSpec,
    pub start: ChainStart,
    pub empty: bool,
    /// gaps punched into the chain: (position selector, length)
    pub gaps: Vec<(u16, u8)>,
    pub reqs: Vec<ReqSel>,
}

fn amount_values() -> impl Strategy<Value = u64> {
    prop_oneof![
        4 => prop_oneof![
            Just(0u64), Just(1), Just(2), Just(511), Just(512), Just(513), Just(1_000_000), Just(u64::MAX), Just(u64::MAX - 1),
            Just(1u64 << 32), Just(1u64 << 63), Just(I64MAX)
        ],
        3 => 1u64..=70,
        1 => any::<u64>(),
    ]
}

fn amount_strategy() -> impl Strategy<Value = AmountSel> {
    prop_oneof![
        5 => amount_values().prop_map(AmountSel::Fixed),
        2 => (-2i8..=2).prop_map(AmountSel::RunLen),
    ]
}

fn origin_strategy() -> impl Strategy<Value = OriginSel> {
    prop_oneof![
        6 => any::<u16>().prop_map(OriginSel::Stored),
        3 => any::<u16>().prop_map(OriginSel::InGap),
        2 => (0u8..4).prop_map(OriginSel::AboveHead),
        1 => (0u8..4).prop_map(OriginSel::BelowTail),
        1 => Just(OriginSel::One),
        1 => Just(OriginSel::Zero),
        4 => prop_oneof![Just(0u16), Just(1), Just(510), Just(511), Just(512), Just(513), 0u16..600].prop_map(OriginSel::NearU64Max),
        2 => prop_oneof![Just(0i16), Just(1), Just(-1), -600i16..600].prop_map(OriginSel::NearI64Max),
        1 => any::<u64>().prop_map(OriginSel::Abs),
    ]
}

fn hash_strategy() -> impl Strategy<Value = HashSel> {
    prop_oneof![
        5 => any::<u16>().prop_map(HashSel::Stored),
        2 => any::<u16>().prop_map(HashSel::NotStored),
        2 => any::<u64>().prop_map(HashSel::Random),
        2 => (prop_oneof![Just(0u8), Just(1), Just(31), Just(33), Just(64), any::<u8>()], any::<u64>()).prop_map(|(len, seed)| HashSel::WrongLen { len, seed }),
        1 => any::<u16>().prop_map(HashSel::StoredCut),
        1 => any::<u16>().prop_map(HashSel::StoredExtended),
    ]
}

fn req_strategy() -> impl Strategy<Value = ReqSel> {
    prop_oneof![
        1 => Just(ReqSel::Head),
        8 => (origin_strategy(), amount_strategy()).prop_map(|(origin, amount)| ReqSel::Height { origin, amount }),
        3 => (hash_strategy(), prop_oneof![6 => Just(1u64), 1 => Just(0u64), 1 => Just(2u64), 1 => any::<u64>()]).prop_map(|(which, amount)| ReqSel::Hash { which, amount }),
        1 => amount_values().prop_map(|amount| ReqSel::NoData { amount }),
    ]
}

fn start_strategy() -> impl Strategy<Value = ChainStart> {
    prop_oneof![
        3 => Just(ChainStart::One),
        3 => (2u16..3000).prop_map(ChainStart::Small),
        2 => ((1u64 << 32)..(1u64 << 62)).prop_map(ChainStart::Mid),
        2 => Just(ChainStart::TopI64),
    ]
}

fn case_strategy(max_len: usize, nreq: usize) -> impl Strategy<Value = Case> {
    let chain = prop_oneof![
        2 => chain_strategy(1..=max_len.min(24), 4, false, true),
        3 => (any::<u64>(), 1..=max_len).prop_map(|(seed, len)| simple_chain_spec(seed, 1, len, TimeBase::Fixed(1_650_000_000 + seed % 1_000_000), 12_000)),
    ];
    (
        chain,
        start_strategy(),
        prop::bool::weighted(0.04),
        prop::collection::vec((any::<u16>(), 1u8..6), 0..=3),
        prop::collection::vec(req_strategy(), nreq..=nreq + 8),
    )
        .prop_map(|(chain, start, empty, gaps, reqs)| Case { chain, start, empty, gaps, reqs })
}

/// long consecutive runs, to exercise the 512 cap
fn long_case_strategy(min_len: usize, max_len: usize) -> impl Strategy<Value = Case> {
    let req = prop_oneof![
        6 => (prop_oneof![3 => 0u16..400, 1 => any::<u16>()].prop_map(OriginSel::Stored), prop_oneof![
            Just(511u64), Just(512), Just(513), Just(514), Just(600), Just(1_000_000), Just(u64::MAX), 500u64..700
        ].prop_map(AmountSel::Fixed)).prop_map(|(origin, amount)| ReqSel::Height { origin, amount }),
        1 => req_strategy(),
    ];
    (
        (any::<u64>(), min_len..=max_len).prop_map(|(seed, len)| simple_chain_spec(seed, 1, len, TimeBase::Fixed(1_650_000_000 + seed % 1_000_000), 12_000)),
        start_strategy(),
        prop::collection::vec((any::<u16>(), 1u8..3), 0..=1),
        prop::collection::vec(req, 12..=20),
    )
        .prop_map(|(chain, start, gaps, reqs)| Case { chain, start, empty: false, gaps, reqs })
}

struct World {
    /// the whole generated chain (stored or not)
    all: Vec<ExtendedHeader>,
    stored: BTreeMap<u64, ExtendedHeader>,
    gap_heights: Vec<u64>,
    store: Arc<InMemoryStore>,
}

fn build_world(case: &Case) -> Result<World, Failure> {
    let mut spec = case.chain.clone();
    let l = spec.blocks.len() as u64;
    spec.start_height = match case.start {
        ChainStart::One => 1,
        ChainStart::Small(s) => s as u64,
        ChainStart::Mid(m) => m,
        ChainStart::TopI64 => I64MAX - (l - 1),
    };
    let chain = build_chain(&spec);
    let all = chain.headers;
    let n = all.len();
    let mut keep = vec![!case.empty; n];
    for (pos, len) in &case.gaps {
        let p = pick(*pos, n);
        for k in keep.iter_mut().skip(p).take(*len as usize) {
            *k = false;
        }
    }
    let mut stored = BTreeMap::new();
    let mut gap_heights = Vec::new();
    let mut segments: Vec<Vec<ExtendedHeader>> = Vec::new();
    let mut cur: Vec<ExtendedHeader> = Vec::new();
    for (i, h) in all.iter().enumerate() {
        if keep[i] {
            stored.insert(h.height(), h.clone());
            cur.push(h.clone());
        } else {
            gap_heights.push(h.height());
            if !cur.is_empty() {
                segments.push(std::mem::take(&mut cur));
            }
        }
    }
    if !cur.is_empty() {
        segments.push(cur);
    }
    let store = InMemoryStore::new();
    let rt = tokio::runtime::Builder::new_current_thread().build().unwrap();
    for seg in segments {
        let (lo, hi) = (seg[0].height(), seg[seg.len() - 1].height());
        rt.block_on(store.insert(seg))
            .map_err(|e| Failure::new("gen", format!("cannot fill the store with the generated segment {lo}..={hi}: {e}")))?;
    }
    Ok(World {
        all,
        stored,
        gap_heights,
        store: Arc::new(store),
    })
}

#[derive(Debug)]
enum Expected {
    Invalid,
    NotFound,
    Headers(Vec<ExtendedHeader>),
}

fn reference(w: &World, data: &ReqData, amount: u64) -> Expected {
    if !ref_request_is_valid(data, amount) {
        return Expected::Invalid;
    }
    match data {
        ReqData::None => Expected::Invalid,
        ReqData::Origin(0) => match w.stored.iter().next_back() {
            Some((_, h)) => Expected::Headers(vec![h.clone()]),
            None => Expected::NotFound,
        },
        ReqData::Origin(o) => {
            let cap = amount.min(CAP);
            let mut out = Vec::new();
            let mut k = 0u64;
            while k < cap {
                let Some(h) = o.checked_add(k) else { break };
                let Some(hd) = w.stored.get(&h) else { break };
                out.push(hd.clone());
                k += 1;
            }
            if out.is_empty() { Expected::NotFound } else { Expected::Headers(out) }
        }
        ReqData::Hash(hash) => match w.stored.values().find(|h| h.hash().as_bytes() == &hash[..]) {
            Some(h) => Expected::Headers(vec![h.clone()]),
            None => Expected::NotFound,
        },
    }
}

fn run_len_from(w: &World, o: u64) -> u64 {
    let mut k = 0u64;
    while let Some(h) = o.checked_add(k) {
        if !w.stored.contains_key(&h) {
            break;
        }
        k += 1;
    }
    k
}

fn resolve(w: &World, r: &ReqSel) -> (ReqData, u64) {
    let stored: Vec<u64> = w.stored.keys().copied().collect();
    let first_all = w.all[0].height();
    let last_all = w.all[w.all.len() - 1].height();
    match r {
        ReqSel::Head => (ReqData::Origin(0), 1),
        ReqSel::NoData { amount } => (ReqData::None, *amount),
        ReqSel::Height { origin, amount } => {
            let o = match origin {
                OriginSel::Stored(s) if !stored.is_empty() => stored[pick(*s, stored.len())],
                OriginSel::Stored(s) => first_all + pick(*s, w.all.len()) as u64,
                OriginSel::InGap(s) if !w.gap_heights.is_empty() => w.gap_heights[pick(*s, w.gap_heights.len())],
                OriginSel::InGap(s) => last_all.saturating_add(1 + (*s as u64 % 3)),
                OriginSel::AboveHead(k) => stored.last().copied().unwrap_or(last_all).saturating_add(1 + *k as u64),
                OriginSel::BelowTail(k) => stored.first().copied().unwrap_or(first_all).saturating_sub(1 + *k as u64),
                OriginSel::One => 1,
                OriginSel::Zero => 0,
                OriginSel::NearU64Max(k) => u64::MAX - *k as u64,
                OriginSel::NearI64Max(k) => I64MAX.wrapping_add_signed(*k as i64),
                OriginSel::Abs(a) => *a,
            };
            let a = match amount {
                AmountSel::Fixed(a) => *a,
                AmountSel::RunLen(d) => run_len_from(w, o).saturating_add_signed(*d as i64),
            };
            (ReqData::Origin(o), a)
        }
        ReqSel::Hash { which, amount } => {
            let stored_hash = |s: u16| -> Vec<u8> {
                if stored.is_empty() {
                    w.all[pick(s, w.all.len())].hash().as_bytes().to_vec()
                } else {
                    w.stored[&stored[pick(s, stored.len())]].hash().as_bytes().to_vec()
                }
            };
            let h = match which {
                HashSel::Stored(s) => stored_hash(*s),
                HashSel::NotStored(s) => {
                    if w.gap_heights.is_empty() {
                        Prng::new(*s as u64).bytes(32)
                    } else {
                        let hh = w.gap_heights[pick(*s, w.gap_heights.len())];
                        w.all.iter().find(|x| x.height() == hh).unwrap().hash().as_bytes().to_vec()
                    }
                }
                HashSel::Random(seed) => Prng::new(*seed).bytes(32),
                HashSel::WrongLen { len, seed } => {
                    let l = if *len == 32 { 30 } else { *len };
                    Prng::new(*seed).bytes(l as usize)
                }
                HashSel::StoredCut(s) => {
                    let mut v = stored_hash(*s);
                    v.truncate(31);
                    v
                }
                HashSel::StoredExtended(s) => {
                    let mut v = stored_hash(*s);
                    v.push(0);
                    v
                }
            };
            (ReqData::Hash(h), *amount)
        }
    }
}

fn describe_store(w: &World) -> String {
    let mut ranges: Vec<(u64, u64)> = Vec::new();
    for h in w.stored.keys() {
        match ranges.last_mut() {
            Some((_, e)) if *e + 1 == *h => *e = *h,
            _ => ranges.push((*h, *h)),
        }
    }
    format!("{ranges:?}")
}

fn summarize(rs: &[HeaderResponse]) -> String {
    let parts: Vec<String> = rs
        .iter()
        .take(6)
        .map(|r| match (r.status_code, ExtendedHeader::decode(&r.body[..])) {
            (STATUS_OK, Ok(h)) => format!("OK@{}", h.height()),
            (STATUS_OK, Err(_)) => "OK(undecodable)".to_string(),
            (STATUS_NOT_FOUND, _) => "NOT_FOUND".to_string(),
            (STATUS_INVALID, _) => "INVALID".to_string(),
            (c, _) => format!("status {c}"),
        })
        .collect();
    format!("{} responses [{}{}]", rs.len(), parts.join(", "), if rs.len() > 6 { ", …" } else { "" })
}

fn check_request(w: &World, store_digest: u64, r: &ReqSel, obs: &mut Obs) -> Result<(), Failure> {
    let (data, amount) = resolve(w, r);
    let request = make_request(&data, amount);
    let expected = reference(w, &data, amount);

    // ---- classification
    let near_max = matches!(data, ReqData::Origin(o) if o > u64::MAX - 600);
    let run = match data {
        ReqData::Origin(o) if o > 0 => run_len_from(w, o),
        _ => 0,
    };
    let class: &'static str = match (&expected, &data) {
        (Expected::Invalid, ReqData::None) => "exp-invalid/no-data",
        (Expected::Invalid, _) if amount == 0 => "exp-invalid/amount-0",
        (Expected::Invalid, ReqData::Origin(0)) => "exp-invalid/head-amount-gt-1",
        (Expected::Invalid, ReqData::Hash(h)) if h.len() != 32 => "exp-invalid/hash-length",
        (Expected::Invalid, ReqData::Hash(_)) => "exp-invalid/hash-amount-gt-1",
        (Expected::Invalid, _) => "exp-invalid/other",
        (Expected::NotFound, ReqData::Origin(0)) => "exp-head-not-found",
        (Expected::Headers(_), ReqData::Origin(0)) => "exp-head-ok",
        (Expected::NotFound, ReqData::Origin(_)) => "exp-height-not-found",
        (Expected::Headers(hs), ReqData::Origin(_)) => {
            let k = hs.len() as u64;
            if k == CAP && (amount > CAP || run > CAP) {
                "exp-height-capped-512"
            } else if k == amount {
                "exp-height-full-amount"
            } else if w.stored.keys().next_back().copied() == Some(hs[hs.len() - 1].height()) {
                "exp-height-cut-by-head"
            } else {
                "exp-height-cut-by-gap"
            }
        }
        (Expected::NotFound, ReqData::Hash(_)) => "exp-hash-not-found",
        (Expected::Headers(_), ReqData::Hash(_)) => "exp-hash-ok",
        (_, ReqData::None) => "exp-invalid/no-data",
    };
    obs.label(class);
    if near_max {
        obs.label("origin-near-u64-max");
    }
    if matches!(data, ReqData::Origin(o) if o >= I64MAX - 600 && o <= I64MAX + 600) {
        obs.label("origin-near-i64-max");
    }
    match amount {
        0 => obs.label("amount-0"),
        512 => obs.label("amount-512"),
        513 => obs.label("amount-513"),
        u64::MAX => obs.label("amount-u64-max"),
        a if a > CAP => obs.label("amount-above-cap"),
        _ => {}
    }
    let trivial = class == "exp-height-full-amount" && !near_max && amount < CAP;
    obs.eval((!trivial).then(|| store_digest ^ digest_of(&request)));

    // ---- run the real handler
    let store = w.store.clone();
    let req2 = request.clone();
    let result = no_panic(move || {
        let rt = tokio::runtime::Builder::new_current_thread().build().unwrap();
        rt.block_on(hx::serve_request(store, req2))
    });
    let ctx = || format!("request {request:?} over a store holding {}", describe_store(w));
    let got = match result {
        Err(rec) => {
            obs.label("outcome-panic");
            return obs.fail(&panic_signature("C29", &rec), format!("the server handler panicked ({rec}); {}; expected {}", ctx(), exp_str(&expected)));
        }
        Ok(None) => {
            return obs.fail("C29:no-response", format!("the handler dropped the response channel without answering; {}", ctx()));
        }
        Ok(Some(v)) => v,
    };
    match &expected {
        Expected::Invalid => {
            if !(got.len() == 1 && got[0].status_code == STATUS_INVALID) {
                obs.fail("C29:invalid-request-answer", format!("expected a single INVALID response, got {}; {}", summarize(&got), ctx()))?;
            }
        }
        Expected::NotFound => {
            if !(got.len() == 1 && got[0].status_code == STATUS_NOT_FOUND) {
                let sig = match data {
                    ReqData::Origin(0) => "C29:head-answer",
                    ReqData::Origin(_) => "C29:height-answer",
                    _ => "C29:hash-answer",
                };
                obs.fail(sig, format!("expected a single NOT_FOUND response, got {}; {}", summarize(&got), ctx()))?;
            }
        }
        Expected::Headers(hs) => {
            let sig = match data {
                ReqData::Origin(0) => "C29:head-answer",
                ReqData::Origin(_) => "C29:height-answer",
                _ => "C29:hash-answer",
            };
            let mut ok = got.len() == hs.len();
            if ok {
                for (g, h) in got.iter().zip(hs) {
                    let same = g.status_code == STATUS_OK && matches!(ExtendedHeader::decode(&g.body[..]), Ok(d) if d == *h);
                    if !same {
                        ok = false;
                        break;
                    }
                }
            }
            if !ok {
                obs.fail(
                    sig,
                    format!(
                        "expected {} OK responses with heights {:?}…{:?}, got {}; {}",
                        hs.len(),
                        hs.first().map(|h| h.height()),
                        hs.last().map(|h| h.height()),
                        summarize(&got),
                        ctx()
                    ),
                )?;
            }
        }
    }
    Ok(())
}

fn exp_str(e: &Expected) -> String {
    match e {
        Expected::Invalid => "one INVALID".into(),
        Expected::NotFound => "one NOT_FOUND".into(),
        Expected::Headers(h) => format!("{} headers from height {}", h.len(), h[0].height()),
    }
}

fn run_case(case: &Case, obs: &mut Obs) -> Result<(), Failure> {
    let w = build_world(case)?;
    let store_digest = digest_bytes(format!("{:?}{:?}", describe_store(&w), w.all[0].hash()).as_bytes());
    obs.label(match w.stored.len() {
        0 => "store-empty",
        _ => {
            let mut ranges = 0;
            let mut prev = None;
            for h in w.stored.keys() {
                if prev.map(|p: u64| p + 1 != *h).unwrap_or(true) {
                    ranges += 1;
                }
                prev = Some(*h);
            }
            match ranges {
                1 => "store-1-range",
                2 => "store-2-ranges",
                3 => "store-3-ranges",
                _ => "store-4-ranges",
            }
        }
    });
    for r in &case.reqs {
        check_request(&w, store_digest, r, obs)?;
    }
    Ok(())
}

pub fn run(ctx: &mut Ctx) {
    ctx.enable_crash_sentinel();
    ctx.assume("the store is filled through Store::insert with honest generated chain segments (ascending, so every segment is a legal new head range); the reference reads the same generated headers from a BTreeMap");
    ctx.assume("response bodies are compared after ExtendedHeader::decode (celestia-types decoder, trusted) with the stored header");
    ctx.assume("the handler is driven exactly like its #[cfg(test)] tests do: fresh handler, on_request_received, poll until the mock ResponseSender receives the answer; libp2p transport is out of scope");
    ctx.essential(&[
        "exp-invalid/no-data",
        "exp-invalid/amount-0",
        "exp-invalid/head-amount-gt-1",
        "exp-invalid/hash-length",
        "exp-invalid/hash-amount-gt-1",
        "exp-head-ok",
        "exp-head-not-found",
        "exp-height-not-found",
        "exp-height-full-amount",
        "exp-height-cut-by-head",
        "exp-height-cut-by-gap",
        "exp-height-capped-512",
        "exp-hash-ok",
        "exp-hash-not-found",
        "origin-near-u64-max",
        "origin-near-i64-max",
        "amount-0",
        "amount-512",
        "amount-513",
        "amount-u64-max",
        "store-empty",
        "store-2-ranges",
        "store-4-ranges",
    ]);
    ctx.set_shrink_iters(300);
    let (cases, max_len, nreq, long_cases, long_min, long_max) = match ctx.tier {
        Tier::Quick => (480u32, 60usize, 16usize, 16u32, 514usize, 560usize),
        Tier::Thorough => (10_000, 90, 24, 160, 514, 700),
    };
    let rule = "per generated store (0..N headers of an honest chain starting at 1 / small / mid / ending at i64::MAX, up to 3 gaps punched in => 1..4 ranges, sometimes empty) 16..32 requests: head; origin in {stored, in a gap, above head, below tail, 1, 0, u64::MAX-k (k incl. 0,1,510..513), i64::MAX+-k, any} x amount in {0,1,2,511,512,513,10^6,u64::MAX,2^32,2^63, 1..70, run length +-2, any}; hash stored / valid-but-not-stored / random / wrong length / cut / extended, with amount 0,1,2,any; no data. One evaluation per request, compared with the reference answer. Non-trivial = everything except a plain hit fully served inside one stored run (distinct by store ranges + request)";
    ctx.proptest("requests", rule, cases, move || case_strategy(max_len, nreq), run_case);
    let rule_long = "stores with one run of 514..N consecutive headers (optionally one gap): height requests with amounts 500..700, 511, 512, 513, 514, 10^6, u64::MAX from origins inside the run, so that the min(amount, 512) cap decides the answer; same oracle";
    ctx.proptest("long-runs", rule_long, long_cases, move || long_case_strategy(long_min, long_max), run_case);
}
