//! C38 — the syncer keeps the store on the network's chain and converges.
//!
//! `SyncerSim` (see `syncer_sim.rs`): the real `Syncer` over the mocked `P2p` + `InMemoryStore`.
//!
//! Adversarial phase (generated schedule): every header-ex request may be answered by anything the
//! real header-ex client could deliver (C28's admissible set): the honest run, an honest prefix, a
//! run of individually valid headers with the requested heights taken from a foreign-key fork (or
//! honest headers followed by fork headers), or a header-ex error. Head requests are answered
//! honestly (trusted peers) or fail. Interleaved: pruner-legal prunes, sampling marks, new
//! header-sub heads, disconnect / reconnect, waiting.
//!
//! Honest phase: every pending request is answered honestly, one batch (= one round) at a time;
//! whenever the syncer asks for nothing, the daser marks everything stored as sampled, header-sub
//! announces the next head and 100 s pass.
//!
//! Oracle.
//!  * Safety, after every step: every header that entered the store is the honest chain's header
//!    at that height (full equality), and lies at or below the network head.
//!  * Every batch passes the C24 batch predicate and the C25 window / re-request rules.
//!  * Bounded liveness: within Σ⌈run/batch⌉ + 5 honest rounds (sum over the maximal runs of missing
//!    heights at the start of the honest phase) every height inside the sampling window up to the
//!    network head is stored (or was stored and has been pruned since). A budget overrun is
//!    inconclusive; being quiescent (a fresh head was delivered, 100 s passed, nothing was requested)
//!    with the obligation unmet is a violation.

use std::sync::atomic::{AtomicU64, Ordering};

use lv_common::prelude::*;

use crate::syncer_sim::{Scenario, Sim, Sizes, run_paused, scenario_strategy};

const PROP: &str = "C38";
const RESERVE: u64 = 96;

/// maximal runs of consecutive heights
fn runs(v: &[u64]) -> Vec<u64> {
    let mut out = Vec::new();
    let mut i = 0;
    while i < v.len() {
        let mut j = i;
        while j + 1 < v.len() && v[j + 1] == v[j] + 1 {
            j += 1;
        }
        out.push((j - i + 1) as u64);
        i = j + 1;
    }
    out
}

async fn honest_phase(sim: &mut Sim, obs: &mut Obs<'_>, overruns: &AtomicU64) -> Result<bool, Failure> {
    sim.head_cap = sim.lay.total;
    sim.step_no += 1;
    sim.note("honest phase".into());
    if sim.peers == 0 || sim.trusted == 0 {
        sim.connect(true);
        sim.settle(1500).await;
        sim.observe(obs, PROP).await?;
    }
    let missing0 = sim.missing_in_window().await?;
    // one honest round = one batch served completely and honestly
    let budget: u64 = runs(&missing0).iter().map(|r| r.div_ceil(sim.batch)).sum::<u64>() + 5;
    if !missing0.is_empty() {
        obs.label("honest-phase-starts-with-missing");
    }
    let finished0 = sim.batches_finished;
    let mut idle_rounds = 0u64;
    loop {
        let missing = sim.missing_in_window().await?;
        let rounds = sim.batches_finished - finished0;
        if missing.is_empty() {
            obs.label("converged");
            obs.label(&format!("rounds-left-of-slack-{}", (budget - rounds.min(budget)).min(5)));
            return Ok(!missing0.is_empty());
        }
        if rounds >= budget || idle_rounds > budget {
            // still active (requests keep coming) but over budget: not decidable here
            obs.label("liveness-budget-overrun");
            obs.note(format!(
                "budget overrun: rounds {rounds} idle {idle_rounds} budget {budget} missing {} history: {}",
                missing.len(),
                sim.history()
            ));
            overruns.fetch_add(1, Ordering::Relaxed);
            return Ok(false);
        }
        sim.step_no += 1;
        if !sim.pending.is_empty() {
            sim.serve_batches(1, obs, PROP).await?;
            continue;
        }
        // Nothing is being requested. The daser catches up and the network produces a block:
        // the syncer re-evaluates (slow sync is only re-checked on header-sub messages).
        idle_rounds += 1;
        obs.label("honest-idle-poke");
        sim.sample_all().await?;
        let started = sim.batches_started;
        let poked = sim.new_head(1, obs);
        sim.settle(1500).await;
        sim.observe(obs, PROP).await?;
        if sim.pending.is_empty() {
            // flush whatever timer may still be running (try_init backoff is at most 90 s)
            sim.settle(100_000).await;
            sim.observe(obs, PROP).await?;
        }
        if sim.pending.is_empty() && sim.batches_started == started {
            let missing = sim.missing_in_window().await?;
            if missing.is_empty() {
                continue;
            }
            if !poked {
                obs.label("liveness-spare-heads-exhausted");
                overruns.fetch_add(1, Ordering::Relaxed);
                return Ok(false);
            }
            // quiescent with the obligation unmet: the harness owns the whole schedule, nothing
            // else will ever happen
            return obs
                .fail(
                    "C38:not-converged-and-quiescent",
                    format!(
                        "heights {:?}.. inside the sampling window (starts at height {}) up to the network head {} are neither stored nor pruned, a trusted peer is connected, everything stored is sampled, a new head was just delivered and 100 s passed, but the syncer requests nothing; history: {}",
                        &missing[..missing.len().min(8)],
                        sim.lay.window_low(),
                        sim.net_head,
                        sim.history()
                    ),
                )
                .map(|_| false);
        }
    }
}

fn case(sc: &Scenario, obs: &mut Obs<'_>, overruns: &AtomicU64) -> Result<(), Failure> {
    run_paused(async {
        let mut sim = Sim::start(sc, RESERVE, obs).await?;
        let mut r = sim.observe(obs, PROP).await;
        if r.is_ok() {
            for st in &sc.steps {
                r = sim.step(st, obs, PROP).await;
                if r.is_err() {
                    break;
                }
            }
        }
        if r.is_ok() {
            if sim.fork_delivered > 0 {
                obs.label("fork-delivered");
            }
            match honest_phase(&mut sim, obs, overruns).await {
                Ok(conv_with_work) => {
                    // non-trivial: the adversary delivered at least one fork run and the honest phase
                    // had heights to fetch and converged
                    let nontrivial = sim.fork_delivered > 0 && conv_with_work;
                    obs.eval(nontrivial.then(|| digest_of(sc)));
                    obs.label_n("batches-started", sim.batches_started);
                    obs.label_n("fork-runs-delivered", sim.fork_delivered);
                }
                Err(f) => r = Err(f),
            }
        }
        sim.shutdown().await;
        r
    })
}

pub fn run(ctx: &mut Ctx) {
    ctx.assume("the adversary holds no validator keys: forged answers are runs from a foreign-key fork (same-key forks linking to a stored parent are equivocation, outside the light-client trust model)");
    ctx.assume("answers are limited to what the header-ex client's validation lets through (non-empty, at most the requested amount, consecutive requested heights, each header individually valid) plus header-ex errors; head requests are answered honestly or fail (trusted peers)");
    ctx.assume("the sim replaces P2p by lumina's own mock (P2p::verif_mocked); header-ex client and libp2p are not in the loop");
    ctx.assume("pruner model as in C25 (only removals the real pruner may do); header timestamps at least 15 min away from every window cutoff");
    ctx.assume("liveness is bounded liveness in honest rounds under a virtual clock; select!/backoff randomness inside the syncer is not controlled");
    ctx.essential(&[
        "fork-delivered",
        "fork-batch-rejected",
        "fork-batch-served",
        "answer-fork",
        "answer-honest-then-fork",
        "answer-prefix",
        "answer-error",
        "converged",
        "honest-phase-starts-with-missing",
        "reconnect",
        "batch-below-top",
        "batch-forward",
    ]);
    ctx.set_shrink_iters(300);
    let thorough = ctx.tier == Tier::Thorough;
    let cases = ctx.tier.pick(1200, 8000);
    let overruns = AtomicU64::new(0);
    ctx.proptest(
        "syncer-safety-liveness",
        "generated chain (zones older than both windows / between the cutoffs / inside), initial store content, batch size 4..64, adversarial schedule (honest/prefix/error/foreign-key fork/honest-then-fork answers, pruner-legal prunes, samples, new heads, disconnect/reconnect), then honest rounds; one evaluation per batch the syncer starts plus one per case; a case is non-trivial (digest of the recipe) when at least one fork run was delivered to the syncer and the honest phase started with missing in-window heights and converged",
        cases,
        move || {
            scenario_strategy(
                Sizes {
                    max_a: 80,
                    max_b: 40,
                    min_c: 45,
                    max_c: if thorough { 400 } else { 250 },
                    max_steps: if thorough { 60 } else { 40 },
                },
                true,
                false,
            )
        },
        |sc, obs| case(sc, obs, &overruns),
    );
    let n = overruns.load(Ordering::Relaxed);
    if n > 0 {
        ctx.inconclusive(format!("C38: {n} case(s) overran the honest-round budget without being quiescent (see notes in the evidence)"));
    }
}
