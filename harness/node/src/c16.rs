//! C16 — Decoding network input never panics.
//!
//! In-process mutation fuzzing whose every decision is a proptest value: seeds are honest encodings
//! produced from generated squares/headers; mutators are byte-level and protobuf-aware operators
//! (`lv_gen::mutate`) plus the structured adversarial set named by the property (huge sibling lists,
//! extreme indices, empty halves, mismatched lengths, zero-length messages). Oracle: the call returns.

use bytes::BytesMut;
use celestia_proto::proof::pb::Proof as RawProof;
use celestia_proto::share::eds::byzantine::pb::{BadEncoding as RawBefp, Share as RawBefpShare};
use celestia_proto::shwap::{Row as RawRow, RowNamespaceData as RawRnd, Sample as RawSample, Share as RawShare};
use celestia_types::consts::appconsts::AppVersion;
use celestia_types::fraud_proof::{BadEncodingFraudProof, FraudProof};
use celestia_types::nmt::Namespace;
use celestia_types::row::{Row, RowId};
use celestia_types::row_namespace_data::{RowNamespaceData, RowNamespaceDataId};
use celestia_types::sample::{Sample, SampleId};
use celestia_types::{AxisType, ExtendedHeader};
use lv_common::prelude::*;
use lv_common::{no_panic, panic_sig};
use lv_gen::chain::{build_header, build_set};
use lv_gen::mutate::{ByteMut, apply_all, byte_mut_strategy};
use lv_gen::square::{Square, SquareSpec, build_square, structured_square_strategy, user_ns};
use celestia_proto::p2p::pb::{HeaderRequest, HeaderResponse, header_request::Data as ReqData};
use celestia_types::eds::EdsId;
use celestia_types::namespace_data::{NamespaceData, NamespaceDataId};
use lumina_node::store::{InMemoryStore, Store};
use lumina_node::verif::{header_ex as hx, shrex_codec as sx, shwap as sw};
use prost::Message;
use std::sync::Arc;
use tendermint_proto::Protobuf;

pub const HEIGHT: u64 = 7;

#[derive(Clone, Copy, Debug, Serialize, Deserialize, PartialEq, Eq)]
pub enum Target {
    Header,
    Sample,
    Row,
    RowNamespaceData,
    Befp,
    Ids,
    HeaderExRequest,
    HeaderExResponse,
    ShrexRow,
    ShrexSample,
    ShrexEds,
    ShrexNamespaceData,
    EdsNotification,
    Multihasher,
}

pub const TYPES_TARGETS: &[Target] = &[Target::Header, Target::Sample, Target::Row, Target::RowNamespaceData, Target::Befp, Target::Ids];
pub const ALL_TARGETS: &[Target] = &[
    Target::Header,
    Target::Sample,
    Target::Row,
    Target::RowNamespaceData,
    Target::Befp,
    Target::Ids,
    Target::HeaderExRequest,
    Target::HeaderExResponse,
    Target::ShrexRow,
    Target::ShrexSample,
    Target::ShrexEds,
    Target::ShrexNamespaceData,
    Target::EdsNotification,
    Target::Multihasher,
];

#[derive(Clone, Debug, Serialize, Deserialize)]
pub enum Structured {
    /// keep the mutated bytes as they are
    None,
    /// zero-length message
    Empty,
    /// proof with `n` copies of its first node (or a fabricated node)
    ProofNodes { n: u16 },
    /// proof range set to boundary values
    ProofRange { start: u8, end: u8 },
    /// row: empty half on the given side
    RowEmptyHalf { right: bool },
    /// row: `n` shares in the half (any count, incl. non powers of two), side
    RowHalfLen { n: u8, right: bool },
    /// row/rnd/sample: share data of `len` bytes
    ShareLen { len: u16 },
    /// id index beyond the square
    IndexBeyond { by: u16 },
    /// befp: claimed index / shares length
    BefpShape { index: u32, shares: u16 },
    /// absence proof without / with garbage leaf hash
    LeafHash { len: u8 },
    /// rewrite the (min, max) namespaces of up to three proof nodes with namespaces taken from a pool made
    /// of the namespaces occurring in the honest proof plus the all-zero and the parity namespace
    /// (coordinated multi-node forgeries: inverted ranges, overlapping neighbours, ...)
    NodeNs { edits: Vec<(u8, u8, u8)> },
}

#[derive(Clone, Debug, Serialize, Deserialize)]
pub struct Round {
    pub target: u8,
    pub seed_sel: u16,
    pub a: u16,
    pub b: u16,
    pub structured: Structured,
    pub muts: Vec<ByteMut>,
}

#[derive(Clone, Debug, Serialize, Deserialize)]
pub struct Case {
    pub square: SquareSpec,
    pub hseed: u64,
    pub rounds: Vec<Round>,
}

const BOUNDS: [i64; 12] = [0, 1, 2, 63, 64, 65, 65535, 65536, i32::MAX as i64, u32::MAX as i64, i64::MAX, -1];

pub struct Fixture {
    pub sq: Square,
    pub header: ExtendedHeader,
    pub namespaces: Vec<Namespace>,
    pub store: Arc<InMemoryStore>,
}

pub fn fixture(square: &SquareSpec, hseed: u64) -> Fixture {
    let sq = build_square(square, AppVersion::V3);
    let (set, keys) = build_set(hseed, &[(0, 10), (1, 7)]);
    let time = tendermint::Time::from_unix_timestamp(1_700_000_000, 0).unwrap();
    let header = build_header(hseed, "private", HEIGHT, 3, time, None, &set, &keys, set.hash(), &[], sq.dah.clone(), 0);
    let mut namespaces = sq.namespaces.clone();
    namespaces.push(user_ns(60001)); // absent
    namespaces.push(Namespace::PAY_FOR_BLOB);
    namespaces.push(Namespace::TAIL_PADDING);
    namespaces.push(Namespace::PARITY_SHARE);
    let store = Arc::new(InMemoryStore::new());
    block_on(store.insert(header.clone())).expect("fixture header inserts");
    Fixture { sq, header, namespaces, store }
}

fn structured_strategy() -> impl Strategy<Value = Structured> {
    prop_oneof![
        10 => Just(Structured::None),
        1 => Just(Structured::Empty),
        3 => prop_oneof![Just(0u16), Just(1), Just(2), Just(31), Just(32), Just(33), Just(63), Just(64), Just(65), Just(1000)].prop_map(|n| Structured::ProofNodes { n }),
        3 => (0u8..12, 0u8..12).prop_map(|(start, end)| Structured::ProofRange { start, end }),
        1 => any::<bool>().prop_map(|right| Structured::RowEmptyHalf { right }),
        2 => (0u8..40, any::<bool>()).prop_map(|(n, right)| Structured::RowHalfLen { n, right }),
        2 => prop_oneof![Just(0u16), Just(1), Just(28), Just(29), Just(30), Just(63), Just(64), Just(511), Just(513), Just(1024)].prop_map(|len| Structured::ShareLen { len }),
        2 => prop_oneof![Just(0u16), Just(1), Just(1000), Just(65000)].prop_map(|by| Structured::IndexBeyond { by }),
        2 => (prop_oneof![Just(0u32), Just(1), Just(7), Just(8), Just(65535), Just(65536), Just(u32::MAX)], prop_oneof![Just(0u16), Just(1), Just(3), Just(4), Just(8), Just(9), Just(300)])
            .prop_map(|(index, shares)| Structured::BefpShape { index, shares }),
        1 => prop_oneof![Just(0u8), Just(1), Just(89), Just(90), Just(91)].prop_map(|len| Structured::LeafHash { len }),
        5 => prop::collection::vec((any::<u8>(), any::<u8>(), any::<u8>()), 1..=3).prop_map(|edits| Structured::NodeNs { edits }),
    ]
}

fn round_strategy() -> impl Strategy<Value = Round> {
    (0u8..=255, any::<u16>(), any::<u16>(), any::<u16>(), structured_strategy(), prop::collection::vec(byte_mut_strategy(), 0..4))
        .prop_map(|(target, seed_sel, a, b, structured, muts)| Round { target, seed_sel, a, b, structured, muts })
}

fn tweak_proof(p: &mut RawProof, s: &Structured) {
    match s {
        Structured::ProofNodes { n } => {
            let node = p.nodes.first().cloned().unwrap_or_else(|| vec![0xab; 90]);
            p.nodes = vec![node; *n as usize];
        }
        Structured::ProofRange { start, end } => {
            p.start = BOUNDS[*start as usize % BOUNDS.len()];
            p.end = BOUNDS[*end as usize % BOUNDS.len()];
        }
        Structured::LeafHash { len } => {
            p.leaf_hash = vec![0x11; *len as usize];
        }
        Structured::NodeNs { edits } => {
            let mut pool: Vec<Vec<u8>> = vec![vec![0u8; 29], vec![0xffu8; 29]];
            for n in &p.nodes {
                if n.len() >= 58 {
                    for part in [&n[..29], &n[29..58]] {
                        if !pool.iter().any(|x| x == part) {
                            pool.push(part.to_vec());
                        }
                    }
                }
            }
            pool.sort();
            let k = p.nodes.len();
            for (node, min, max) in edits {
                if k == 0 {
                    break;
                }
                let n = &mut p.nodes[*node as usize % k];
                if n.len() >= 58 {
                    n[..29].copy_from_slice(&pool[*min as usize % pool.len()]);
                    n[29..58].copy_from_slice(&pool[*max as usize % pool.len()]);
                }
            }
        }
        _ => {}
    }
}

fn tweak_shares(shares: &mut Vec<RawShare>, s: &Structured) {
    if let Structured::ShareLen { len } = s {
        if let Some(first) = shares.first_mut() {
            first.data.resize(*len as usize, 0x5a);
        }
    }
}

/// Honest seed encoding for a target + the (mutable) context the decoder needs.
pub enum Prepared {
    Header(Vec<u8>),
    Sample(SampleId, Vec<u8>),
    Row(RowId, Vec<u8>),
    Rnd(RowNamespaceDataId, Vec<u8>),
    Befp(Vec<u8>),
    Ids(Vec<u8>),
    HexReq(Vec<u8>),
    HexResp(HeaderRequest, Vec<u8>),
    ShrexRow(RowId, Vec<u8>),
    ShrexSample(SampleId, Vec<u8>),
    ShrexEds(Vec<u8>),
    ShrexNd(NamespaceDataId, Vec<u8>),
    Notif(Vec<u8>),
    Mh(u64, Vec<u8>),
}

fn block_on<F: std::future::Future>(f: F) -> F::Output {
    thread_local! {
        static RT: tokio::runtime::Runtime = tokio::runtime::Builder::new_current_thread().enable_all().build().unwrap();
    }
    RT.with(|rt| rt.block_on(f))
}

fn hex_request(r: &Round) -> HeaderRequest {
    let amounts = [0u64, 1, 2, 64, 511, 512, 513, 1 << 20, u64::MAX];
    let origins = [0u64, 1, HEIGHT, HEIGHT + 1, u64::MAX - 1, u64::MAX];
    let amount = amounts[r.a as usize % amounts.len()];
    match r.seed_sel % 4 {
        0 => HeaderRequest { data: Some(ReqData::Origin(origins[r.b as usize % origins.len()])), amount },
        1 => HeaderRequest { data: Some(ReqData::Hash(vec![r.b as u8; [0usize, 1, 31, 32, 33][r.a as usize % 5]])), amount },
        2 => HeaderRequest { data: None, amount },
        _ => HeaderRequest { data: Some(ReqData::Origin(HEIGHT)), amount: 1 },
    }
}

pub fn prepare(fx: &Fixture, t: Target, r: &Round) -> Prepared {
    let w = fx.sq.eds.square_width();
    let row = pick(r.a, w as usize) as u16;
    let col = pick(r.b, w as usize) as u16;
    let beyond = |idx: u16| match r.structured {
        Structured::IndexBeyond { by } => w.saturating_add(by).max(idx),
        _ => idx,
    };
    match t {
        Target::Header => Prepared::Header(fx.header.clone().encode_vec()),
        Target::Sample | Target::ShrexSample | Target::Multihasher => {
            let axis = if r.seed_sel & 1 == 0 { AxisType::Row } else { AxisType::Col };
            let mut raw = RawSample::from(Sample::new(row, col, axis, &fx.sq.eds).unwrap());
            if let Some(p) = raw.proof.as_mut() {
                tweak_proof(p, &r.structured);
            }
            if let (Structured::ShareLen { len }, Some(sh)) = (&r.structured, raw.share.as_mut()) {
                sh.data.resize(*len as usize, 0x5a);
            }
            let id = SampleId::new(beyond(row), if r.seed_sel & 2 == 0 { col } else { beyond(col) }, HEIGHT).unwrap();
            Prepared::Sample(id, raw.encode_to_vec())
        }
        Target::Row | Target::ShrexRow => {
            let mut raw = RawRow::from(Row::new(row, &fx.sq.eds).unwrap());
            match &r.structured {
                Structured::RowEmptyHalf { right } => {
                    raw.shares_half.clear();
                    raw.half_side = *right as i32;
                }
                Structured::RowHalfLen { n, right } => {
                    let proto = raw.shares_half.first().cloned().unwrap_or(RawShare { data: vec![0; 512] });
                    raw.shares_half.resize(*n as usize, proto);
                    raw.half_side = *right as i32;
                }
                s => tweak_shares(&mut raw.shares_half, s),
            }
            if r.seed_sel & 4 != 0 {
                // right half: honest parity half of that row
                let full = fx.sq.eds.row(row).unwrap();
                raw.shares_half = full[(w / 2) as usize..].iter().map(|s| RawShare { data: s.to_vec() }).collect();
                raw.half_side = 1;
                if let Structured::RowHalfLen { n, .. } = &r.structured {
                    raw.shares_half.truncate(*n as usize);
                }
            }
            Prepared::Row(RowId::new(beyond(row), HEIGHT).unwrap(), raw.encode_to_vec())
        }
        Target::RowNamespaceData | Target::ShrexNamespaceData => {
            let ns = fx.namespaces[pick(r.seed_sel, fx.namespaces.len())];
            let rows = fx.sq.eds.get_namespace_data(ns, &fx.sq.dah, HEIGHT).unwrap_or_default();
            let (id, data) = if rows.is_empty() {
                (RowNamespaceDataId::new(ns, beyond(row), HEIGHT).unwrap(), None)
            } else {
                let (id, d) = rows[pick(r.a, rows.len())].clone();
                (RowNamespaceDataId::new(ns, beyond(id.row_index()), HEIGHT).unwrap(), Some(d))
            };
            let mut raw = match data {
                Some(d) => {
                    let mut b = BytesMut::new();
                    d.encode(&mut b);
                    RawRnd::decode(&b[..]).unwrap()
                }
                None => RawRnd { shares: vec![], proof: Some(RawProof { start: 0, end: 0, nodes: vec![], leaf_hash: vec![], is_max_namespace_ignored: true }) },
            };
            if let Some(p) = raw.proof.as_mut() {
                tweak_proof(p, &r.structured);
            }
            tweak_shares(&mut raw.shares, &r.structured);
            Prepared::Rnd(id, raw.encode_to_vec())
        }
        Target::Befp => {
            let row_axis = r.seed_sel & 1 == 0;
            let idx = if row_axis { row } else { col };
            let mut shares = Vec::new();
            for i in 0..w {
                let (rr, cc) = if row_axis { (idx, i) } else { (i, idx) };
                let present = (r.seed_sel >> 2).wrapping_add(i) % 3 != 0 || i < w / 2;
                if !present {
                    shares.push(RawBefpShare::default());
                    continue;
                }
                // proof along the same axis or the orthogonal one
                let ortho = (r.seed_sel >> 4) & 1 == 1;
                let axis = match (row_axis, ortho) {
                    (true, false) | (false, true) => AxisType::Row,
                    _ => AxisType::Col,
                };
                let s = RawSample::from(Sample::new(rr, cc, axis, &fx.sq.eds).unwrap());
                let sh = fx.sq.eds.share(rr, cc).unwrap();
                let mut data = sh.namespace().as_bytes().to_vec();
                data.extend_from_slice(sh.as_ref());
                let mut proof = s.proof.unwrap();
                if i == 0 {
                    tweak_proof(&mut proof, &r.structured);
                }
                shares.push(RawBefpShare { data, proof: Some(proof), proof_axis: axis as i32 });
            }
            let mut raw = RawBefp {
                header_hash: fx.header.hash().as_bytes().to_vec(),
                height: HEIGHT,
                shares,
                index: idx as u32,
                axis: if row_axis { 0 } else { 1 },
            };
            if let Structured::BefpShape { index, shares } = &r.structured {
                raw.index = *index;
                let proto = raw.shares.first().cloned().unwrap_or_default();
                raw.shares.resize(*shares as usize, proto);
            }
            if let (Structured::ShareLen { len }, Some(first)) = (&r.structured, raw.shares.first_mut()) {
                first.data.resize(*len as usize, 0x5a);
            }
            Prepared::Befp(raw.encode_to_vec())
        }
        Target::Ids => {
            let mut b = BytesMut::new();
            match r.seed_sel % 3 {
                0 => SampleId::new(row, col, HEIGHT).unwrap().encode(&mut b),
                1 => RowId::new(row, HEIGHT).unwrap().encode(&mut b),
                _ => RowNamespaceDataId::new(fx.namespaces[0], row, HEIGHT).unwrap().encode(&mut b),
            }
            Prepared::Ids(b.to_vec())
        }
        Target::HeaderExRequest => {
            let mut buf = Vec::new();
            block_on(hx::codec_write_request(&mut futures::io::Cursor::new(&mut buf), hex_request(r))).unwrap();
            Prepared::HexReq(buf)
        }
        Target::HeaderExResponse => {
            let n = 1 + (r.a as usize % 3);
            let statuses = [0i32, 1, 2, 3, 100, -1, i32::MAX];
            let responses: Vec<HeaderResponse> = (0..n)
                .map(|i| HeaderResponse {
                    body: if (r.seed_sel >> i) & 1 == 0 { fx.header.clone().encode_vec() } else { vec![0x0a; r.b as usize % 40] },
                    status_code: if r.seed_sel & 0x100 == 0 { 1 } else { statuses[(r.b as usize + i) % statuses.len()] },
                })
                .collect();
            let mut buf = Vec::new();
            block_on(hx::codec_write_response(&mut futures::io::Cursor::new(&mut buf), responses)).unwrap();
            Prepared::HexResp(hex_request(r), buf)
        }
        Target::ShrexEds => Prepared::ShrexEds(sx::shrex_encode_eds(&fx.sq.eds)),
        Target::EdsNotification => {
            let n = celestia_proto::share::p2p::shrex::sub::RecentEdsNotification {
                height: [0u64, 1, HEIGHT, u64::MAX][r.a as usize % 4],
                data_hash: match r.seed_sel % 4 {
                    0 => fx.header.dah.hash().as_bytes().to_vec(),
                    1 => vec![],
                    2 => vec![0; 32],
                    _ => vec![7; r.b as usize % 70],
                },
            };
            Prepared::Notif(n.encode_to_vec())
        }
    }
}

/// re-wrap a types-level seed as the corresponding node-level target
pub fn prepare_node(fx: &Fixture, t: Target, r: &Round) -> Prepared {
    match t {
        Target::ShrexRow => match prepare(fx, Target::Row, r) {
            Prepared::Row(id, b) => Prepared::ShrexRow(id, b),
            p => p,
        },
        Target::ShrexSample => match prepare(fx, Target::Sample, r) {
            Prepared::Sample(id, b) => Prepared::ShrexSample(id, b),
            p => p,
        },
        Target::ShrexNamespaceData => {
            let ns = fx.namespaces[pick(r.seed_sel, fx.namespaces.len())];
            let id = NamespaceDataId::new(ns, HEIGHT).unwrap();
            let rows: Vec<_> = fx.sq.eds.get_namespace_data(ns, &fx.sq.dah, HEIGHT).unwrap_or_default().into_iter().map(|(_, d)| d).collect();
            let mut bytes = sx::shrex_encode_namespace_data(&NamespaceData::new(rows));
            if !matches!(r.structured, Structured::None) {
                // splice a structurally tweaked single row (length-delimited) in front
                if let Prepared::Rnd(_, one) = prepare(fx, Target::RowNamespaceData, r) {
                    let mut pre = Vec::new();
                    lv_gen::mutate::put_varint(&mut pre, one.len() as u64);
                    pre.extend_from_slice(&one);
                    pre.extend_from_slice(&bytes);
                    bytes = pre;
                }
            }
            Prepared::ShrexNd(id, bytes)
        }
        Target::Multihasher => {
            let (code, cid, container): (u64, Vec<u8>, Vec<u8>) = match r.seed_sel % 3 {
                0 => match prepare(fx, Target::Sample, r) {
                    Prepared::Sample(id, b) => (0x7811, cid::CidGeneric::<12>::from(id).to_bytes(), b),
                    _ => unreachable!(),
                },
                1 => match prepare(fx, Target::Row, r) {
                    Prepared::Row(id, b) => (0x7801, cid::CidGeneric::<10>::from(id).to_bytes(), b),
                    _ => unreachable!(),
                },
                _ => match prepare(fx, Target::RowNamespaceData, r) {
                    Prepared::Rnd(id, b) => (0x7821, cid::CidGeneric::<39>::from(id).to_bytes(), b),
                    _ => unreachable!(),
                },
            };
            let code = if r.b % 17 == 0 { [0u64, 0x12, 0x7801, 0x7811, 0x7821, u64::MAX][r.a as usize % 6] } else { code };
            let block = celestia_proto::bitswap::Block { cid, container };
            Prepared::Mh(code, block.encode_to_vec())
        }
        other => prepare(fx, other, r),
    }
}

/// Runs a types-level decoder on `bytes`. Returns whether protobuf decoding reached lumina logic.
pub fn run_target(fx: &Fixture, p: &Prepared, bytes: &[u8]) -> bool {
    match p {
        Prepared::Header(_) => {
            let a = ExtendedHeader::decode(bytes);
            let _ = ExtendedHeader::decode_and_validate(bytes);
            if let Ok(h) = &a {
                let _ = fx.header.verify(h);
                let _ = h.verify(&fx.header);
            }
            a.is_ok()
        }
        Prepared::Sample(id, _) => {
            let reached = RawSample::decode(bytes).is_ok();
            if let Ok(s) = Sample::decode(*id, bytes) {
                let _ = s.verify(*id, &fx.sq.dah);
            }
            reached
        }
        Prepared::Row(id, _) => {
            let reached = RawRow::decode(bytes).is_ok();
            if let Ok(r) = Row::decode(*id, bytes) {
                let _ = r.verify(*id, &fx.sq.dah);
            }
            reached
        }
        Prepared::Rnd(id, _) => {
            let reached = RawRnd::decode(bytes).is_ok();
            if let Ok(r) = RowNamespaceData::decode(*id, bytes) {
                let _ = r.verify(*id, &fx.sq.dah);
            }
            reached
        }
        Prepared::Befp(_) => {
            let reached = RawBefp::decode(bytes).is_ok();
            if let Ok(p) = BadEncodingFraudProof::decode(bytes) {
                let _ = p.validate(&fx.header);
            }
            reached
        }
        Prepared::HexReq(_) => {
            let r = block_on(hx::codec_read_request(&mut futures::io::Cursor::new(bytes)));
            if let Ok(req) = &r {
                let _ = hx::header_request_is_valid(req);
                let _ = block_on(hx::serve_request(fx.store.clone(), req.clone()));
            }
            r.is_ok()
        }
        Prepared::HexResp(req, _) => {
            let r = block_on(hx::codec_read_response(&mut futures::io::Cursor::new(bytes)));
            if let Ok(resps) = &r {
                let _ = block_on(hx::decode_and_verify_responses(req, resps));
            }
            r.map(|v| !v.is_empty()).unwrap_or(false)
        }
        Prepared::ShrexRow(id, _) => {
            let _ = sx::shrex_decode_and_verify_row(bytes, id, &fx.header);
            RawRow::decode(bytes).is_ok()
        }
        Prepared::ShrexSample(id, _) => {
            let _ = sx::shrex_decode_and_verify_sample(bytes, id, &fx.header);
            RawSample::decode(bytes).is_ok()
        }
        Prepared::ShrexEds(_) => {
            let _ = sx::shrex_decode_and_verify_eds(bytes, &fx.header);
            !bytes.is_empty() && bytes.len() % 512 == 0
        }
        Prepared::ShrexNd(id, _) => {
            let _ = sx::shrex_decode_and_verify_namespace_data(bytes, id, &fx.header);
            !bytes.is_empty()
        }
        Prepared::Notif(_) => {
            let _ = sx::eds_notification_deserialize_and_validate(bytes);
            celestia_proto::share::p2p::shrex::sub::RecentEdsNotification::decode(bytes).is_ok()
        }
        Prepared::Mh(code, _) => {
            let _ = sw::multihasher_hash(fx.store.clone(), *code, bytes);
            if let Ok(b) = celestia_proto::bitswap::Block::decode(bytes) {
                if let Ok(c) = cid::Cid::read_bytes(b.cid.as_slice()) {
                    let _ = sw::get_block_container(&c, bytes);
                    let _ = sw::convert_cid(&c);
                }
                true
            } else {
                false
            }
        }
        Prepared::Ids(_) => {
            let _ = sx::shrex_decode_row_request(bytes);
            let _ = sx::shrex_decode_sample_request(bytes);
            let _ = sx::shrex_decode_eds_request(bytes);
            let _ = sx::shrex_decode_namespace_data_request(bytes);
            let _ = EdsId::decode(bytes);
            let _ = SampleId::decode(bytes);
            let _ = RowId::decode(bytes);
            let _ = RowNamespaceDataId::decode(bytes);
            let _ = celestia_types::namespace_data::NamespaceDataId::decode(bytes);
            let _ = celestia_types::eds::EdsId::decode(bytes);
            if let Ok(cid) = cid::CidGeneric::<64>::try_from(bytes) {
                let _ = SampleId::try_from(&cid);
                let _ = RowId::try_from(cid);
                let _ = RowNamespaceDataId::try_from(cid);
            }
            true
        }
    }
}

fn seed_bytes(p: &Prepared) -> &[u8] {
    match p {
        Prepared::Header(b) | Prepared::Befp(b) | Prepared::Ids(b) => b,
        Prepared::Sample(_, b) => b,
        Prepared::Row(_, b) => b,
        Prepared::Rnd(_, b) => b,
        Prepared::HexReq(b) | Prepared::ShrexEds(b) | Prepared::Notif(b) => b,
        Prepared::HexResp(_, b) => b,
        Prepared::ShrexRow(_, b) => b,
        Prepared::ShrexSample(_, b) => b,
        Prepared::ShrexNd(_, b) => b,
        Prepared::Mh(_, b) => b,
    }
}

pub fn run(ctx: &mut Ctx) {
    ctx.enable_crash_sentinel();
    ctx.assume("seeds are honest encodings of generated squares/headers; a target 'returns' when it yields Ok or Err; panics are caught by catch_unwind (aborts/stack overflows would end the process: exit 2)");
    ctx.assume("harness build has debug-assertions and overflow-checks on (covers 'including in debug builds')");
    let labels: Vec<String> = ALL_TARGETS.iter().map(|t| format!("target-{t:?}")).collect();
    ctx.essential(&labels.iter().map(|s| s.as_str()).collect::<Vec<_>>());
    ctx.essential(&["structured-ProofNodes", "structured-ProofRange", "structured-RowEmptyHalf", "structured-BefpShape", "structured-NodeNs"]);
    let cases = ctx.tier.pick(2500, 120000);
    ctx.proptest(
        "mutation-fuzz",
        "per case: one generated square + signed header; 42 rounds each = (target, honest seed encoding chosen by selectors, optional structured adversarial tweak, 0..3 byte/protobuf-aware mutations) fed to the decoder and then to verification against the header/DAH; oracle: the call returns. Non-trivial = input differs from its honest seed AND passes raw protobuf decoding (reaches lumina logic); distinct by target+bytes",
        cases,
        || (structured_square_strategy(0, 2), any::<u64>(), prop::collection::vec(round_strategy(), 42..=42)).prop_map(|(square, hseed, rounds)| Case { square, hseed, rounds }),
        |case, obs| {
            let fx = fixture(&case.square, case.hseed);
            for r in &case.rounds {
                let t = ALL_TARGETS[r.target as usize % ALL_TARGETS.len()];
                let p = prepare_node(&fx, t, r);
                let seed = seed_bytes(&p).to_vec();
                let mut bytes = apply_all(&seed, &r.muts);
                if matches!(r.structured, Structured::Empty) {
                    bytes.clear();
                }
                let honest = {
                    let clean = Round { structured: Structured::None, muts: vec![], ..r.clone() };
                    seed_bytes(&prepare_node(&fx, t, &clean)).to_vec()
                };
                let differs = bytes != honest;
                obs.label(&format!("target-{t:?}"));
                if !matches!(r.structured, Structured::None) {
                    let name = format!("{:?}", r.structured);
                    obs.label(&format!("structured-{}", name.split([' ', '{']).next().unwrap_or("")));
                }
                match no_panic(|| run_target(&fx, &p, &bytes)) {
                    Ok(reached) => {
                        obs.eval((differs && reached).then(|| digest_bytes(&bytes) ^ (t as u64)));
                        if reached {
                            obs.label("reached-lumina-logic");
                        }
                    }
                    Err(rec) => {
                        obs.eval(Some(digest_bytes(&bytes)));
                        let sig = format!("C16:{t:?}:{}", panic_sig(&rec));
                        obs.fail(&sig, format!("decoder target {t:?} panicked: {rec}; input ({} bytes) hex={}", bytes.len(), hex::encode(&bytes[..bytes.len().min(600)])))?;
                    }
                }
            }
            Ok(())
        },
    );
}
