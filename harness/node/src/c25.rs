//! C25 — the syncer never (re-)requests history behind a pruned window edge.
//!
//! The real `Syncer` runs over a mocked `P2p` and an `InMemoryStore` (see `syncer_sim.rs`). A
//! generated schedule plays the network (honest / prefix / error answers in any order, new
//! header-sub heads, disconnect / reconnect), the daser (`mark_as_sampled`) and the pruner
//! (`remove_height`). A fixed epilogue then drives every history into the situation the property
//! is about: serve the syncer until it stops at the sampling-window edge, let the pruner remove
//! the header that bounds the window, wake the syncer up with a new head.
//!
//! Oracle, for every batch the syncer starts (`FetchingHeadersStarted`), judged against the store
//! state the batch was computed in:
//!  * the C24 batch predicate;
//!  * if the height directly above the batch is synced (stored or pruned), that header — by the
//!    chain's own timestamp, whether still stored or already pruned — is inside the sampling window;
//!  * the same batch is not requested 4 times in a row when every attempt was served completely
//!    and honestly and the store did not change in between.

use lv_common::prelude::*;

use crate::syncer_sim::{PrunePref, Scenario, Sim, Sizes, rs_contains, rs_union, run_paused, scenario_strategy};

const PROP: &str = "C25";
const RESERVE: u64 = 12;

async fn epilogue(sim: &mut Sim, obs: &mut Obs<'_>) -> Result<(), Failure> {
    sim.head_cap = sim.lay.total;
    sim.step_no += 1;
    sim.note("epilogue".into());
    if sim.peers == 0 || sim.trusted == 0 {
        sim.connect(true);
        sim.settle(1500).await;
        sim.observe(obs, PROP).await?;
    }
    // 1. serve honestly until the syncer has nothing more to ask (daser keeps up, header-sub
    //    keeps poking so that slow sync re-evaluates)
    for round in 0..6 {
        sim.serve_batches(400, obs, PROP).await?;
        sim.settle(100_000).await;
        sim.observe(obs, PROP).await?;
        if sim.pending.is_empty() {
            if round >= 1 {
                break;
            }
            sim.sample_all().await?;
            sim.new_head(1, obs);
            sim.settle(1500).await;
            sim.observe(obs, PROP).await?;
        }
    }
    let (stored, pruned, _) = sim.snapshot().await?;
    let synced = rs_union(&stored, &pruned);
    if let Some(&(top_s, _)) = synced.last() {
        let below_missing = top_s > 1 && !rs_contains(&synced, top_s - 1);
        if sim.pending.is_empty() && below_missing && rs_contains(&stored, top_s) && !sim.lay.in_sampling_window(top_s) {
            // the syncer stopped below a stored header that is older than the window
            obs.label("stopped-at-stored-window-edge");
        }
        if sim.pending.is_empty() && top_s == 1 {
            obs.label("synced-to-genesis");
        }
    }
    // 2. the pruner removes the header(s) bounding the window (only what the real pruner may remove)
    sim.step_no += 1;
    sim.prune(0, PrunePref::TopLowerEdge, 2, true, obs).await?;
    sim.settle(1500).await;
    sim.observe(obs, PROP).await?;
    // 3. wake the syncer up: a new head arrives by header-sub, then keep serving
    for _ in 0..3 {
        sim.step_no += 1;
        sim.new_head(1, obs);
        sim.settle(1500).await;
        sim.observe(obs, PROP).await?;
        sim.serve_batches(6, obs, PROP).await?;
    }
    Ok(())
}

fn case(sc: &Scenario, obs: &mut Obs<'_>) -> Result<(), Failure> {
    run_paused(async {
        let mut sim = Sim::start(sc, RESERVE, obs).await?;
        let mut r = sim.observe(obs, PROP).await;
        if r.is_ok() {
            for st in &sc.steps {
                r = sim.step(st, obs, PROP).await;
                if r.is_err() {
                    break;
                }
            }
        }
        if r.is_ok() {
            r = epilogue(&mut sim, obs).await;
        }
        if r.is_ok() {
            if sim.edge_pruned {
                obs.label("case-pruned-window-edge");
            }
            if sim.wild_prune {
                obs.label("case-with-illegal-prune");
            }
            // non-trivial: the window-bounding edge was pruned while older history is missing and
            // the syncer re-evaluated what to fetch afterwards
            let nontrivial = sim.edge_pruned_then_triggered;
            if nontrivial {
                obs.label("trigger-after-edge-prune");
            }
            obs.eval(nontrivial.then(|| digest_of(sc)));
            obs.label_n("batches-started", sim.batches_started);
        }
        sim.shutdown().await;
        r
    })
}

pub fn run(ctx: &mut Ctx) {
    ctx.assume("the sim replaces P2p by lumina's own mock (P2p::verif_mocked, a copy of the cfg(test) P2p::mocked): header-ex validation and libp2p are not in the loop; answers are limited to what the header-ex client lets through");
    ctx.assume("header timestamps sit at least 15 min (mostly >= 1 h) away from every window cutoff; the syncer reads the wall clock, the run takes seconds");
    ctx.assume("pruner model: removes stored heights beyond both windows, or (pruning window < sampling window) sampled non-edge heights beyond the pruning window — as Pruner::get_next_prunable_batch; prunes outside this model are generated too but then only the window rule and the C24 predicate are asserted");
    ctx.assume("select!/backoff randomness inside the syncer is not controlled; the property must hold for every such choice");
    ctx.essential(&[
        "pruned-window-edge",
        "trigger-after-edge-prune",
        "stopped-at-stored-window-edge",
        "batch-below-top",
        "batch-forward",
        "request-below-stored-in-window",
        "answer-prefix",
        "answer-error",
        "reconnect",
        "header-sub-appended",
    ]);
    ctx.set_shrink_iters(400);
    let thorough = ctx.tier == Tier::Thorough;
    let cases = ctx.tier.pick(3000, 15000);
    ctx.proptest(
        "syncer-window-edge",
        "generated chain (zones older than both windows / between the cutoffs / inside), initial store content, batch size 4..64, schedule of answers (honest/prefix/error), prunes, samples, new heads, disconnect/reconnect, then a fixed epilogue (serve to quiescence, prune the top range's lower edge, announce new heads); one evaluation per batch the syncer starts; a case is non-trivial (digest of the recipe) when a pruner-legal prune removed the out-of-window lower edge of the top synced range while history below it is missing and the syncer re-evaluated fetch_next_batch afterwards",
        cases,
        move || {
            scenario_strategy(
                Sizes {
                    max_a: 80,
                    max_b: 40,
                    min_c: 35,
                    max_c: if thorough { 300 } else { 190 },
                    max_steps: if thorough { 60 } else { 40 },
                },
                false,
                true,
            )
        },
        case,
    );
}
