//! C41 — Closing the redb store waits for in-flight work without hanging.
//!
//! (a) `poll-schedules`: every schedule over {poll the waiter, drop guard i, cancel the wait and start
//!     a new one after creating k more guards} for at most 3 guards, single-threaded, manual polling
//!     of the `wait_guards` future with a counting waker. Exhaustive up to the stated length.
//!     (A guard cannot be created *while* a `wait_guards` future exists: it borrows the counter
//!     mutably. The "create guard during wait" action of the design is therefore "cancel, create,
//!     wait again".)
//! (b) `threads`: real threads — one waiter (`futures::executor::block_on`), 1..3 holders — with the
//!     `sched_point` hooks turned into seeded delays of 0..50 us.
//! (c) `store-close`: N operations started on a `RedbStore` (multi-thread runtime), a generated subset
//!     of the awaiting futures dropped after their first poll (their `spawn_blocking` work
//!     continues), `close()`, then `Arc::strong_count(raw_db) == 1`.
//!
//! A hang is reported only if it reproduces twice under the same delay script (10 s real-time grace
//! each); a timeout that does not reproduce makes the run inconclusive (exit 2), never a violation.

use std::future::Future;
use std::pin::Pin;
use std::sync::atomic::{AtomicBool, AtomicU64, AtomicUsize, Ordering};
use std::sync::{Arc, Mutex, OnceLock, mpsc};
use std::task::{Context, Poll, Wake, Waker};
use std::time::{Duration, Instant};

use celestia_types::ExtendedHeader;
use lumina_node::store::{RedbStore, Store};
use lumina_node::verif::{COUNTER_SCHED_POINTS, VerifCounter, VerifCounterGuard, counter_sched_clear, counter_sched_install};
use lv_common::prelude::*;
use lv_gen::chain::{TimeBase, build_chain, simple_chain_spec};

const GRACE: Duration = Duration::from_secs(10);
const MAX_GUARDS: usize = 3;

static INCONCLUSIVE: Mutex<Vec<String>> = Mutex::new(Vec::new());

fn note_inconclusive(s: String) {
    let mut v = INCONCLUSIVE.lock().unwrap_or_else(|e| e.into_inner());
    if v.len() < 8 {
        v.push(s);
    }
}

// ------------------------------------------------------------------ (a) poll-level schedules

#[derive(Clone, Copy, Debug, Serialize, Deserialize, PartialEq)]
pub enum Act {
    /// poll the current `wait_guards` future once
    Poll,
    /// drop guard number i (numbered in creation order)
    Drop(u8),
    /// drop the current `wait_guards` future, create `new` guards, start a new `wait_guards`
    Restart { new: u8 },
}

#[derive(Clone, Debug, Serialize, Deserialize)]
pub struct Sched {
    pub initial: u8,
    pub acts: Vec<Act>,
}

struct CountingWaker(AtomicUsize);

impl Wake for CountingWaker {
    fn wake(self: Arc<Self>) {
        self.0.fetch_add(1, Ordering::SeqCst);
    }
    fn wake_by_ref(self: &Arc<Self>) {
        self.0.fetch_add(1, Ordering::SeqCst);
    }
}

/// All valid schedules with at most `max_len` actions.
fn all_schedules(max_len: usize) -> Vec<Sched> {
    #[derive(Clone)]
    struct St {
        live: Vec<bool>,
        done: bool,
        restarts: u8,
    }
    fn rec(out: &mut Vec<Sched>, initial: u8, acts: &mut Vec<Act>, st: &St, max_len: usize) {
        out.push(Sched {
            initial,
            acts: acts.clone(),
        });
        if acts.len() == max_len {
            return;
        }
        if !st.done {
            let mut n = st.clone();
            n.done = !st.live.iter().any(|l| *l);
            acts.push(Act::Poll);
            rec(out, initial, acts, &n, max_len);
            acts.pop();
        }
        for i in 0..st.live.len() {
            if st.live[i] {
                let mut n = st.clone();
                n.live[i] = false;
                acts.push(Act::Drop(i as u8));
                rec(out, initial, acts, &n, max_len);
                acts.pop();
            }
        }
        if st.restarts < 2 {
            for new in 0..=(MAX_GUARDS - st.live.len()) {
                let mut n = st.clone();
                n.done = false;
                n.restarts += 1;
                n.live.extend(std::iter::repeat_n(true, new));
                acts.push(Act::Restart { new: new as u8 });
                rec(out, initial, acts, &n, max_len);
                acts.pop();
            }
        }
    }
    let mut out = Vec::new();
    for initial in 0..=MAX_GUARDS as u8 {
        let st = St {
            live: vec![true; initial as usize],
            done: false,
            restarts: 0,
        };
        rec(&mut out, initial, &mut Vec::new(), &st, max_len);
    }
    out
}

fn run_sched(s: &Sched, obs: &mut Obs) -> Result<(), Failure> {
    let wk = Arc::new(CountingWaker(AtomicUsize::new(0)));
    let waker = Waker::from(wk.clone());
    let mut cx = Context::from_waker(&waker);
    let mut counter = VerifCounter::new();
    let mut guards: Vec<Option<VerifCounterGuard>> = (0..s.initial).map(|_| Some(counter.guard())).collect();
    let mut i = 0usize;
    let mut dropped_while_pending = false;
    let mut restarted_pending = false;
    loop {
        let mut to_create = None;
        {
            let mut fut: Pin<Box<dyn Future<Output = ()> + '_>> = Box::pin(counter.wait_guards());
            let mut done = false;
            // Some(wake count at the last Pending poll) while the waiter is registered
            let mut pending_since: Option<usize> = None;
            while i < s.acts.len() {
                let act = s.acts[i];
                i += 1;
                match act {
                    Act::Poll => {
                        if done {
                            return Err(Failure::new("gen", format!("schedule polls a completed future: {s:?}")));
                        }
                        let live = guards.iter().flatten().count();
                        match fut.as_mut().poll(&mut cx) {
                            Poll::Ready(()) => {
                                obs.check(live == 0, "C41:wait-completed-with-live-guards", || {
                                    format!("action #{} of {s:?}: wait_guards returned Ready while {live} guard(s) are not dropped", i - 1)
                                })?;
                                done = true;
                                pending_since = None;
                                obs.label(if dropped_while_pending { "ready-after-pending" } else { "ready-at-first-poll" });
                            }
                            Poll::Pending => {
                                obs.check(live > 0, "C41:wait-pending-without-guards", || {
                                    format!("action #{} of {s:?}: every guard is dropped but wait_guards returned Pending", i - 1)
                                })?;
                                pending_since = Some(wk.0.load(Ordering::SeqCst));
                                obs.label("pending-poll");
                            }
                        }
                    }
                    Act::Drop(j) => {
                        let g = guards.get_mut(j as usize).and_then(|g| g.take());
                        if g.is_none() {
                            return Err(Failure::new("gen", format!("schedule drops a dead guard: {s:?}")));
                        }
                        drop(g);
                        let live = guards.iter().flatten().count();
                        if let Some(w0) = pending_since {
                            dropped_while_pending = true;
                            obs.label("drop-while-waiter-pending");
                            if live == 0 {
                                let w = wk.0.load(Ordering::SeqCst);
                                obs.check(w > w0, "C41:last-drop-did-not-wake-waiter", || {
                                    format!("action #{} of {s:?}: the last guard was dropped while the waiter was parked (Pending) and its waker was not woken: the wait would hang", i - 1)
                                })?;
                                obs.label("last-drop-woke-waiter");
                            }
                        }
                    }
                    Act::Restart { new } => {
                        if pending_since.is_some() {
                            restarted_pending = true;
                        }
                        to_create = Some(new);
                        break;
                    }
                }
            }
            if to_create.is_none() && !done {
                // end of schedule: one more poll decides
                let live = guards.iter().flatten().count();
                let r = fut.as_mut().poll(&mut cx);
                obs.check(r.is_ready() == (live == 0), "C41:final-poll-wrong", || {
                    format!("after {s:?}: {live} live guard(s) but the final poll returned {r:?}")
                })?;
            }
        }
        match to_create {
            Some(new) => {
                for _ in 0..new {
                    guards.push(Some(counter.guard()));
                }
                obs.label("wait-cancelled-and-restarted");
            }
            None => break,
        }
    }
    if restarted_pending {
        obs.label("cancelled-a-parked-wait");
    }
    obs.eval(dropped_while_pending.then(|| digest_of(s)));
    Ok(())
}

// ------------------------------------------------------------------ (b) threads

#[derive(Clone, Debug, Serialize, Deserialize)]
pub struct Stress {
    pub seed: u64,
    pub n_guards: u8,
    /// per scheduling point: maximal injected delay in microseconds (0..=50)
    pub max_delay_us: [u8; COUNTER_SCHED_POINTS],
    /// spin before each holder drops its guard / before the waiter starts, in microseconds
    pub holder_pre_us: [u8; 3],
    pub waiter_pre_us: u8,
    pub iters: u16,
}

fn stress_strategy(iters: u16) -> impl Strategy<Value = Stress> {
    let d = || prop_oneof![2 => Just(0u8), 2 => 1u8..=10, 2 => 10u8..=50];
    (
        any::<u64>(),
        1u8..=3,
        [d(), d(), d(), d(), d(), d(), d(), d()],
        [0u8..40, 0u8..40, 0u8..40],
        0u8..40,
    )
        .prop_map(move |(seed, n_guards, max_delay_us, holder_pre_us, waiter_pre_us)| Stress {
            seed,
            n_guards,
            max_delay_us,
            holder_pre_us,
            waiter_pre_us,
            iters,
        })
}

fn spin_for(d: Duration) {
    let t = Instant::now();
    while t.elapsed() < d {
        std::hint::spin_loop();
    }
}

fn mix64(a: u64, b: u64) -> u64 {
    let mut z = a ^ b.wrapping_mul(0x9E3779B97F4A7C15);
    z = (z ^ (z >> 30)).wrapping_mul(0xBF58476D1CE4E5B9);
    z = (z ^ (z >> 27)).wrapping_mul(0x94D049BB133111EB);
    z ^ (z >> 31)
}

fn delays_ns(us: &[u8; COUNTER_SCHED_POINTS]) -> [u32; COUNTER_SCHED_POINTS] {
    let mut out = [0u32; COUNTER_SCHED_POINTS];
    for (o, u) in out.iter_mut().zip(us) {
        *o = *u as u32 * 1000;
    }
    out
}


enum StressOutcome {
    /// every round returned; `early` = rounds in which wait_guards returned before every holder had
    /// begun dropping its guard
    Finished { rounds: usize, early: Vec<usize> },
    /// no progress for a whole grace period although every guard of the waiter's round was dropped
    Hang { round: usize },
}

/// One run of all rounds of a case: 1 waiter thread + n holder threads go through `iters` rounds
/// (round r uses its own counter; holder k owns guard k of every round). A holder never runs ahead
/// of the waiter by more than the round the waiter has announced, so drops race with the wait of the
/// same round. The delay script stays installed for the whole run.
fn stress_run(c: &Stress) -> StressOutcome {
    let n = c.n_guards.clamp(1, 3) as usize;
    let rounds = c.iters.max(1) as usize;
    counter_sched_install(c.seed, delays_ns(&c.max_delay_us));
    let mut counters: Vec<VerifCounter> = (0..rounds).map(|_| VerifCounter::new()).collect();
    let mut guards: Vec<Vec<VerifCounterGuard>> = (0..n).map(|_| Vec::with_capacity(rounds)).collect();
    for ctr in &counters {
        for g in guards.iter_mut() {
            g.push(ctr.guard());
        }
    }
    let began: Arc<Vec<AtomicBool>> = Arc::new((0..rounds * n).map(|_| AtomicBool::new(false)).collect());
    let dropped: Arc<Vec<AtomicBool>> = Arc::new((0..rounds * n).map(|_| AtomicBool::new(false)).collect());
    // round the waiter has announced (usize::MAX = none yet)
    let waiter_round = Arc::new(AtomicUsize::new(usize::MAX));
    let abort = Arc::new(AtomicBool::new(false));
    let mut holders = Vec::new();
    for (k, gs) in guards.drain(..).enumerate() {
        let (began, dropped, waiter_round, abort) = (began.clone(), dropped.clone(), waiter_round.clone(), abort.clone());
        let (seed, pre_us) = (c.seed, c.holder_pre_us[k] as u64);
        holders.push(std::thread::spawn(move || {
            for (r, g) in gs.into_iter().enumerate() {
                // some rounds the holder does not wait for the waiter (guard dropped before the wait starts)
                let eager = mix64(seed, (r * 8 + k) as u64 + 1000) % 4 == 0;
                while !eager {
                    let w = waiter_round.load(Ordering::Acquire);
                    if (w != usize::MAX && w >= r) || abort.load(Ordering::Relaxed) {
                        break;
                    }
                    std::thread::yield_now();
                }
                if abort.load(Ordering::Relaxed) {
                    std::mem::forget(g);
                    return;
                }
                spin_for(Duration::from_nanos(pre_us * 1000 * (mix64(seed, (r * 8 + k) as u64) % 3) / 2));
                began[r * n + k].store(true, Ordering::SeqCst);
                drop(g);
                dropped[r * n + k].store(true, Ordering::SeqCst);
            }
        }));
    }
    let (tx, rx) = mpsc::channel::<Vec<usize>>();
    let (wbegan, wround) = (began.clone(), waiter_round.clone());
    let (seed, wpre) = (c.seed, c.waiter_pre_us as u64);
    let counters_moved = std::mem::take(&mut counters);
    std::thread::spawn(move || {
        let mut early = Vec::new();
        for (r, mut ctr) in counters_moved.into_iter().enumerate() {
            wround.store(r, Ordering::Release);
            spin_for(Duration::from_nanos(wpre * 1000 * (mix64(seed, r as u64 + 77) % 3) / 2));
            futures::executor::block_on(ctr.wait_guards());
            if !(0..n).all(|k| wbegan[r * n + k].load(Ordering::SeqCst)) {
                early.push(r);
            }
        }
        let _ = tx.send(early);
    });
    // watch for progress
    let progress = |wr: &AtomicUsize, dr: &Vec<AtomicBool>| (wr.load(Ordering::SeqCst), dr.iter().filter(|d| d.load(Ordering::SeqCst)).count());
    let mut last = progress(&waiter_round, &dropped);
    let out = loop {
        match rx.recv_timeout(GRACE) {
            Ok(early) => break StressOutcome::Finished { rounds, early },
            Err(_) => {
                let now = progress(&waiter_round, &dropped);
                let r = now.0;
                let all_dropped = r != usize::MAX && (0..n).all(|k| dropped[r * n + k].load(Ordering::SeqCst));
                if now == last && all_dropped {
                    break StressOutcome::Hang { round: r };
                }
                last = now;
            }
        }
    };
    abort.store(true, Ordering::SeqCst);
    for h in holders {
        let _ = h.join();
    }
    counter_sched_clear();
    out
}

fn run_stress(c: &Stress, obs: &mut Obs) -> Result<(), Failure> {
    let label = match c.n_guards.clamp(1, 3) {
        1 => "threads-1-guard",
        2 => "threads-2-guards",
        _ => "threads-3-guards",
    };
    let pd = digest_of(&(c.n_guards, c.max_delay_us, c.holder_pre_us, c.waiter_pre_us));
    let mut outcome = stress_run(c);
    if let StressOutcome::Hang { round } = outcome {
        // must reproduce under the same delay script before it is called a hang
        outcome = stress_run(c);
        match outcome {
            StressOutcome::Hang { round: r2 } => {
                obs.eval(Some(mix64(c.seed, round as u64) ^ pd));
                obs.fail(
                    "C41:wait-guards-hang",
                    format!("{c:?}: every guard of round {round} (second run: round {r2}) was dropped but wait_guards made no progress for {GRACE:?}; reproduced twice under the same delay script"),
                )?;
                return Ok(());
            }
            StressOutcome::Finished { .. } => {
                obs.label("timeout-not-reproduced");
                note_inconclusive(format!("threads: {c:?} stalled once for {GRACE:?} in round {round} and did not reproduce"));
            }
        }
    }
    if let StressOutcome::Finished { rounds, early } = outcome {
        for r in 0..rounds {
            obs.eval(Some(mix64(c.seed, r as u64) ^ pd));
        }
        obs.label_n(label, rounds as u64);
        obs.check(early.is_empty(), "C41:wait-completed-with-live-guards", || {
            format!("{c:?}: in rounds {early:?} wait_guards returned before every holder had started dropping its guard")
        })?;
    }
    Ok(())
}

// ------------------------------------------------------------------ (c) store level

#[derive(Clone, Debug, Serialize, Deserialize)]
pub enum StoreOp {
    /// insert the next `len` headers above everything inserted so far
    Insert { len: u8 },
    GetHead,
    GetByHeight { h: u8 },
    HasAt { h: u8 },
    MarkSampled { h: u8 },
    StoredRanges,
    RemoveLowest,
}

#[derive(Clone, Debug, Serialize, Deserialize)]
pub struct CloseCase {
    pub seed: u64,
    pub ops: Vec<StoreOp>,
    /// bit i set = the future of op i is dropped after its first poll ("aborted")
    pub abort_mask: u8,
    /// aborted futures are dropped before (true) or after the kept ones were awaited
    pub abort_first: bool,
    pub blocking_threads: u8,
    pub max_delay_us: [u8; COUNTER_SCHED_POINTS],
    pub on_disk: bool,
}

fn store_op() -> impl Strategy<Value = StoreOp> {
    prop_oneof![
        4 => (1u8..=12).prop_map(|len| StoreOp::Insert { len }),
        1 => Just(StoreOp::GetHead),
        2 => (1u8..40).prop_map(|h| StoreOp::GetByHeight { h }),
        1 => (1u8..40).prop_map(|h| StoreOp::HasAt { h }),
        1 => (1u8..12).prop_map(|h| StoreOp::MarkSampled { h }),
        1 => Just(StoreOp::StoredRanges),
        1 => Just(StoreOp::RemoveLowest),
    ]
}

fn close_strategy() -> impl Strategy<Value = CloseCase> {
    let d = || prop_oneof![3 => Just(0u8), 2 => 1u8..=10, 2 => 10u8..=50];
    (
        any::<u64>(),
        prop::collection::vec(store_op(), 1..=6),
        any::<u8>(),
        any::<bool>(),
        1u8..=3,
        [d(), d(), d(), d(), d(), d(), d(), d()],
        prop::bool::weighted(0.15),
    )
        .prop_map(|(seed, ops, abort_mask, abort_first, blocking_threads, max_delay_us, on_disk)| CloseCase {
            seed,
            ops,
            abort_mask,
            abort_first,
            blocking_threads,
            max_delay_us,
            on_disk,
        })
}

fn headers() -> &'static Vec<ExtendedHeader> {
    static H: OnceLock<Vec<ExtendedHeader>> = OnceLock::new();
    H.get_or_init(|| build_chain(&simple_chain_spec(0xC41, 1, 96, TimeBase::Fixed(1_700_000_000), 6000)).headers)
}

enum CloseOutcome {
    Closed { refs_after: usize, refs_after_wait: usize, inflight_before: usize, reopen_err: Option<String> },
    Timeout,
    Setup(String),
}

type OpFut<'a> = Pin<Box<dyn Future<Output = ()> + Send + 'a>>;

fn op_future<'a>(store: &'a RedbStore, op: &StoreOp, next: &mut usize) -> OpFut<'a> {
    let hs = headers();
    match op {
        StoreOp::Insert { len } => {
            let from = (*next).min(hs.len());
            let to = (from + *len as usize).min(hs.len());
            *next = to;
            let batch = hs[from..to].to_vec();
            Box::pin(async move {
                let _ = store.insert(batch).await;
            })
        }
        StoreOp::GetHead => Box::pin(async move {
            let _ = store.get_head().await;
        }),
        StoreOp::GetByHeight { h } => {
            let h = *h as u64;
            Box::pin(async move {
                let _ = store.get_by_height(h).await;
            })
        }
        StoreOp::HasAt { h } => {
            let h = *h as u64;
            Box::pin(async move {
                let _ = store.has_at(h).await;
            })
        }
        StoreOp::MarkSampled { h } => {
            let h = *h as u64;
            Box::pin(async move {
                let _ = store.mark_as_sampled(h).await;
            })
        }
        StoreOp::StoredRanges => Box::pin(async move {
            let _ = store.get_stored_header_ranges().await;
        }),
        StoreOp::RemoveLowest => Box::pin(async move {
            if let Ok(r) = store.get_stored_header_ranges().await {
                if let Some(t) = r.tail() {
                    let _ = store.remove_height(t).await;
                }
            }
        }),
    }
}

static FILE_NO: AtomicU64 = AtomicU64::new(0);

fn close_once(c: &CloseCase) -> CloseOutcome {
    let rt = match tokio::runtime::Builder::new_multi_thread()
        .worker_threads(2)
        .max_blocking_threads(c.blocking_threads.clamp(1, 3) as usize)
        .enable_all()
        .build()
    {
        Ok(rt) => rt,
        Err(e) => return CloseOutcome::Setup(format!("runtime: {e}")),
    };
    let path = c.on_disk.then(|| {
        std::env::temp_dir().join(format!("lv-c41-{}-{}.redb", std::process::id(), FILE_NO.fetch_add(1, Ordering::SeqCst)))
    });
    let out = rt.block_on(async {
        let store = match &path {
            Some(p) => RedbStore::open(p).await,
            None => RedbStore::in_memory().await,
        };
        let store = match store {
            Ok(s) => s,
            Err(e) => return CloseOutcome::Setup(format!("open: {e}")),
        };
        let hs = headers();
        if let Err(e) = store.insert(hs[..8].to_vec()).await {
            return CloseOutcome::Setup(format!("initial insert: {e}"));
        }
        let raw = store.raw_db();
        counter_sched_install(c.seed, delays_ns(&c.max_delay_us));
        {
            let mut next = 8usize;
            let mut futs: Vec<Option<OpFut<'_>>> = c.ops.iter().map(|op| Some(op_future(&store, op, &mut next))).collect();
            // first poll: creates the counter guard and hands the work to spawn_blocking
            for f in futs.iter_mut() {
                let fut = f.as_mut().unwrap();
                if futures::poll!(fut.as_mut()).is_ready() {
                    *f = None;
                }
            }
            let aborted = |i: usize| c.abort_mask >> (i % 8) & 1 == 1;
            if c.abort_first {
                for (i, f) in futs.iter_mut().enumerate() {
                    if aborted(i) {
                        *f = None;
                    }
                }
            }
            for (i, f) in futs.iter_mut().enumerate() {
                if !aborted(i) {
                    if let Some(fut) = f.take() {
                        fut.await;
                    }
                }
            }
            drop(futs);
        }
        let inflight_before = store.verif_inflight_refs();
        let closed = tokio::time::timeout(GRACE, store.close()).await;
        let refs_after = Arc::strong_count(&raw);
        counter_sched_clear();
        match closed {
            Err(_) => CloseOutcome::Timeout,
            Ok(_) => {
                let mut reopen_err = None;
                if refs_after == 1 {
                    if let Some(p) = &path {
                        // the caller's own handle is the last one: releasing it must free the file
                        drop(raw);
                        match RedbStore::open(p).await {
                            Ok(s2) => {
                                let _ = s2.close().await;
                            }
                            Err(e) => reopen_err = Some(e.to_string()),
                        }
                        return CloseOutcome::Closed {
                            refs_after,
                            refs_after_wait: 1,
                            inflight_before,
                            reopen_err,
                        };
                    }
                }
                tokio::time::sleep(Duration::from_millis(if refs_after == 1 { 0 } else { 30 })).await;
                CloseOutcome::Closed {
                    refs_after,
                    refs_after_wait: Arc::strong_count(&raw),
                    inflight_before,
                    reopen_err,
                }
            }
        }
    });
    counter_sched_clear();
    rt.shutdown_timeout(Duration::from_secs(2));
    if let Some(p) = path {
        let _ = std::fs::remove_file(p);
    }
    out
}

fn run_close(c: &CloseCase, obs: &mut Obs) -> Result<(), Failure> {
    let n_aborted = (0..c.ops.len()).filter(|i| c.abort_mask >> (i % 8) & 1 == 1).count();
    let mut outcome = close_once(c);
    if matches!(outcome, CloseOutcome::Timeout) {
        outcome = match close_once(c) {
            CloseOutcome::Timeout => {
                obs.eval(Some(digest_of(c)));
                obs.fail(
                    "C41:close-hang",
                    format!("{c:?}: RedbStore::close did not return within {GRACE:?}, twice under the same delay script"),
                )?;
                return Ok(());
            }
            other => {
                obs.label("timeout-not-reproduced");
                note_inconclusive(format!("store-close: {c:?} timed out once ({GRACE:?}) and did not reproduce"));
                other
            }
        };
    }
    match outcome {
        CloseOutcome::Setup(e) => Err(Failure::new("gen", format!("store-close setup failed: {e}"))),
        CloseOutcome::Timeout => unreachable!(),
        CloseOutcome::Closed {
            refs_after,
            refs_after_wait,
            inflight_before,
            reopen_err,
        } => {
            obs.eval((n_aborted > 0).then(|| digest_of(c)));
            obs.label(if inflight_before > 0 { "close-with-inflight-work" } else { "close-without-inflight-work" });
            if n_aborted > 0 {
                obs.label("some-awaiting-futures-dropped");
            }
            if c.ops.len() > c.blocking_threads as usize {
                obs.label("more-ops-than-blocking-threads");
            }
            obs.label(if c.on_disk { "on-disk" } else { "in-memory" });
            obs.check(refs_after == 1, "C41:close-returned-while-task-holds-database", || {
                format!(
                    "{c:?}: after close() returned, Arc::strong_count(raw_db) = {refs_after} (expected 1: only the caller's handle); {inflight_before} blocking closure(s) held the store just before close; 30 ms later the count is {refs_after_wait}"
                )
            })?;
            if let Some(e) = reopen_err {
                obs.fail(
                    "C41:close-returned-while-task-holds-database",
                    format!("{c:?}: re-opening the database file right after close() failed: {e}"),
                )?;
            }
            Ok(())
        }
    }
}

pub fn run(ctx: &mut Ctx) {
    ctx.assume("(a) owns the whole schedule at poll granularity only; (b),(c) reach statement-level interleavings only probabilistically through 8 delay points (sched_point hooks at the statement boundaries of CounterGuard::drop and Counter::wait_guards) plus OS scheduling; not all interleavings are covered");
    ctx.assume("tokio's Notify and Arc are trusted; a guard counts as 'past its drop' once its owner has started dropping it; hang = no return within 10 s real time after all guards are dropped, reproduced twice under the same delay script");
    ctx.assume("(c) 'aborting an awaiting task' = dropping the operation's future after its first poll (the spawn_blocking closure keeps running or stays queued), the only way work can be in flight while close(self) owns the store; Arc::strong_count(raw_db)==1 is read immediately after close() returns");
    ctx.essential(&[
        "drop-while-waiter-pending",
        "last-drop-woke-waiter",
        "ready-at-first-poll",
        "wait-cancelled-and-restarted",
        "cancelled-a-parked-wait",
        "threads-1-guard",
        "threads-3-guards",
        "close-with-inflight-work",
        "some-awaiting-futures-dropped",
        "more-ops-than-blocking-threads",
    ]);

    // (a)
    let max_len = ctx.tier.pick(9, 11);
    let scheds = all_schedules(max_len);
    eprintln!("[C41/poll-schedules] {} schedules of length <= {max_len}", scheds.len());
    ctx.enumerate(
        "poll-schedules",
        &format!("ALL schedules of at most {max_len} actions over {{poll waiter, drop guard i, cancel wait + create k guards + wait again (at most 2 restarts)}} with at most 3 guards ever created and 0..3 initial guards; oracle per poll: Ready iff no live guard; the last drop while the waiter is parked must wake its waker; final poll decides. Non-trivial = a guard was dropped while the waiter was parked"),
        true,
        scheds,
        run_sched,
    );

    // (b)
    ctx.set_shrink_iters(4);
    let cases = ctx.tier.pick(200, 6_000);
    let iters: u16 = ctx.tier.pick(50, 100);
    ctx.proptest_serial(
        "threads",
        "per case: 1..3 guard holders + 1 waiter on real threads, per-point maximal delays 0..50 us at the 8 sched points, start jitter 0..40 us; 50 (thorough 100) iterations per case with derived delay seeds; one evaluation per iteration: wait_guards returns only after every holder began dropping, and returns within 10 s once all have. Every iteration is non-trivial (distinct by derived seed + parameters)",
        cases,
        move || stress_strategy(iters),
        run_stress,
    );

    // (c)
    let cases = ctx.tier.pick(300, 5_000);
    ctx.proptest_serial(
        "store-close",
        "per case: RedbStore (in-memory, 15% on disk) on a multi-thread runtime with 1..3 blocking threads, 8 headers pre-inserted; 1..6 operations (insert 1..12 headers, get_head, get_by_height, has_at, mark_as_sampled, stored ranges, remove lowest) polled once, a generated subset of their futures dropped (before or after the others were awaited), delays at the counter's sched points, then close(): must return within 10 s and leave Arc::strong_count(raw_db)==1 (on disk: the file can be re-opened). Non-trivial = at least one awaiting future was dropped",
        cases,
        close_strategy,
        run_close,
    );
    ctx.set_shrink_iters(2000);

    let inc: Vec<String> = std::mem::take(&mut *INCONCLUSIVE.lock().unwrap_or_else(|e| e.into_inner()));
    for s in inc {
        ctx.inconclusive(s);
    }
}
