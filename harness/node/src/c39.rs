//! C39 — Peer tracker counts match peer states.
//!
//! Generated event histories are interpreted in lock-step by the real `PeerTracker` (through the
//! `PeerTrackerSim` hook) and by an abstract model. After every event:
//!   * `info()` equals a recount over the tracker's own peers AND a recount over the model,
//!   * `protected_len(tag)` equals the number of model peers protected with `tag`,
//!   * the watch channel carries `info()` (and flagged a change whenever the value changed),
//!   * after `gc` no connected or protected peer was forgotten.

use std::collections::{BTreeMap, BTreeSet};
use std::time::Duration;

use libp2p::PeerId;
use lumina_node::node::PeerTrackerInfo;
use lumina_node::verif::{PeerTrackerSim, VerifPeerState};
use lv_common::prelude::*;

pub const MAX_PEERS: usize = 8;
pub const MAX_CONNS: u8 = 3;
pub const TAGS: u32 = 4;
/// `EXPIRED_AFTER` of peer_tracker.rs (the documented expiry of disconnected peers), in ms
const EXPIRY_MS: u64 = 120_000;

/// Deterministic peer id: sha2-256 multihash of (seed, idx).
pub fn peer_id(seed: u64, idx: u8) -> PeerId {
    let d = lv_gen::refs::sha256(&[b"lv-peer", &seed.to_le_bytes(), &[idx]]);
    let mh = multihash::Multihash::<64>::wrap(0x12, &d).expect("32-byte digest fits");
    PeerId::from_multihash(mh).expect("sha2-256 multihash is a valid peer id")
}

#[derive(Clone, Debug, Serialize, Deserialize)]
pub enum Ev {
    AddConn { p: u8, c: u8 },
    RemConn { p: u8, c: u8 },
    Trust { p: u8, t: bool },
    Protect { p: u8, tag: u8 },
    Unprotect { p: u8, tag: u8 },
    Archival { p: u8 },
    Agent { p: u8, s: String },
    AddPeerId { p: u8 },
    Gc,
    Age { secs: u16 },
}

#[derive(Clone, Debug, Serialize, Deserialize)]
pub struct Case {
    pub seed: u64,
    pub n_peers: u8,
    pub evs: Vec<Ev>,
}

const AGENTS: &[&str] = &[
    "lumina/celestia/0.14.0",
    "celestia-node/celestia/bridge/v0.24.1/fb95d45",
    "celestia-node/celestia/full/v0.24.1/fb95d45",
    "celestia-node/celestia/light/v0.24.1/fb95d45",
    "probelab-node/celestia/ant/v0.1.0",
    "",
    "lumina",
    "/lumina/celestia",
    "celestia-node",
    "celestia-node/celestia",
    "celestia-node/celestia/full",
    "celestia-node//bridge",
    "celestia-node/celestia/FULL/v1",
    "celestia-node/full/celestia/v1",
    "Lumina/celestia/0.1",
];

fn agent_strategy() -> impl Strategy<Value = String> {
    prop_oneof![
        6 => (0usize..AGENTS.len()).prop_map(|i| AGENTS[i].to_string()),
        1 => "[a-z/-]{0,16}",
        1 => "(lumina|celestia-node)(/[a-z]{0,6}){0,4}",
    ]
}

fn ev_strategy() -> impl Strategy<Value = Ev> {
    let p = || 0u8..MAX_PEERS as u8;
    prop_oneof![
        8 => (p(), 0u8..MAX_CONNS).prop_map(|(p, c)| Ev::AddConn { p, c }),
        6 => (p(), 0u8..MAX_CONNS).prop_map(|(p, c)| Ev::RemConn { p, c }),
        3 => (p(), any::<bool>()).prop_map(|(p, t)| Ev::Trust { p, t }),
        4 => (p(), 0u8..TAGS as u8).prop_map(|(p, tag)| Ev::Protect { p, tag }),
        4 => (p(), 0u8..TAGS as u8).prop_map(|(p, tag)| Ev::Unprotect { p, tag }),
        2 => p().prop_map(|p| Ev::Archival { p }),
        4 => (p(), agent_strategy()).prop_map(|(p, s)| Ev::Agent { p, s }),
        1 => p().prop_map(|p| Ev::AddPeerId { p }),
        3 => Just(Ev::Gc),
        3 => prop_oneof![2 => 1u16..60, 2 => 100u16..140, 2 => 150u16..400].prop_map(|secs| Ev::Age { secs }),
    ]
}

fn case_strategy(max_evs: usize) -> impl Strategy<Value = Case> {
    (any::<u64>(), 1u8..=MAX_PEERS as u8, prop::collection::vec(ev_strategy(), 10..=max_evs)).prop_map(|(seed, n_peers, evs)| Case { seed, n_peers, evs })
}

#[derive(Clone, Copy, Debug, PartialEq, Eq)]
enum Kind {
    Unknown,
    Bridge,
    Full,
    Light,
}

impl Kind {
    fn is_full(self) -> bool {
        matches!(self, Kind::Full | Kind::Bridge)
    }
    fn name(self) -> &'static str {
        match self {
            Kind::Unknown => "Unknown",
            Kind::Bridge => "Bridge",
            Kind::Full => "Full",
            Kind::Light => "Light",
        }
    }
}

/// Independent transcription of the documented agent-version rule: `lumina/...` is a light node,
/// `celestia-node/<network>/<bridge|full|light>/...` names its kind, anything else is unknown.
fn kind_of_agent(s: &str) -> Kind {
    let parts: Vec<&str> = s.split('/').collect();
    match parts.first().copied() {
        Some("lumina") => Kind::Light,
        Some("celestia-node") => match parts.get(2).copied() {
            Some("bridge") => Kind::Bridge,
            Some("full") => Kind::Full,
            Some("light") => Kind::Light,
            _ => Kind::Unknown,
        },
        _ => Kind::Unknown,
    }
}

#[derive(Clone, Debug)]
struct MPeer {
    conns: BTreeSet<usize>,
    trusted: bool,
    archival: bool,
    kind: Kind,
    tags: BTreeSet<u32>,
    /// model time since disconnection (None while connected)
    age_ms: Option<u64>,
}

impl MPeer {
    fn new() -> Self {
        MPeer {
            conns: BTreeSet::new(),
            trusted: false,
            archival: false,
            kind: Kind::Unknown,
            tags: BTreeSet::new(),
            age_ms: Some(0),
        }
    }
    fn connected(&self) -> bool {
        !self.conns.is_empty()
    }
    fn protected(&self) -> bool {
        !self.tags.is_empty()
    }
}

fn recount_model(m: &BTreeMap<u8, MPeer>) -> PeerTrackerInfo {
    let mut i = PeerTrackerInfo::default();
    for p in m.values().filter(|p| p.connected()) {
        i.num_connected_peers += 1;
        i.num_connected_trusted_peers += p.trusted as u64;
        i.num_connected_full_nodes += p.kind.is_full() as u64;
        i.num_connected_archival_nodes += p.archival as u64;
    }
    i
}

fn recount_real(ps: &[VerifPeerState]) -> PeerTrackerInfo {
    let mut i = PeerTrackerInfo::default();
    for p in ps.iter().filter(|p| p.num_connections > 0) {
        i.num_connected_peers += 1;
        i.num_connected_trusted_peers += p.trusted as u64;
        i.num_connected_full_nodes += p.full as u64;
        i.num_connected_archival_nodes += p.archival as u64;
    }
    i
}

fn run_case(case: &Case, obs: &mut Obs) -> Result<(), Failure> {
    let n = (case.n_peers as usize).clamp(1, MAX_PEERS);
    let ids: Vec<PeerId> = (0..n as u8).map(|i| peer_id(case.seed, i)).collect();
    let idx_of = |id: &PeerId| ids.iter().position(|x| x == id).map(|i| i as u8);
    let mut real = PeerTrackerSim::new();
    let mut model: BTreeMap<u8, MPeer> = BTreeMap::new();
    let mut last_seen = PeerTrackerInfo::default();
    let mut rolling = digest_bytes(&case.seed.to_le_bytes());
    let mut last_observable = 0u64;

    for (step, ev) in case.evs.iter().enumerate() {
        let pi = |p: u8| (p as usize).min(n - 1) as u8; // monotone (shrinks towards peer 0)
        let mut gc_ran = false;
        match ev {
            Ev::AddConn { p, c } => {
                let p = pi(*p);
                real.add_connection(&ids[p as usize], *c as usize);
                let m = model.entry(p).or_insert_with(MPeer::new);
                let was = m.connected();
                m.conns.insert(*c as usize);
                if !was {
                    if m.age_ms.is_some() && (m.trusted || m.archival || m.protected()) {
                        obs.label("connect-with-prior-flags");
                    }
                    m.age_ms = None;
                }
                if m.conns.len() > 1 {
                    obs.label("multi-connection-peer");
                }
            }
            Ev::RemConn { p, c } => {
                let p = pi(*p);
                real.remove_connection(&ids[p as usize], *c as usize);
                if let Some(m) = model.get_mut(&p) {
                    let was = m.connected();
                    let had = m.conns.remove(&(*c as usize));
                    if !m.connected() {
                        // connection-scoped attributes end with the last connection; a removal that
                        // leaves the peer without connections (re)starts its disconnected period
                        if !was {
                            obs.label("remconn-on-disconnected-peer");
                        } else {
                            obs.label("last-connection-removed");
                        }
                        m.kind = Kind::Unknown;
                        m.archival = false;
                        m.age_ms = Some(0);
                    } else if had {
                        obs.label("non-last-connection-removed");
                    }
                }
            }
            Ev::Trust { p, t } => {
                let p = pi(*p);
                real.set_trusted(&ids[p as usize], *t);
                model.entry(p).or_insert_with(MPeer::new).trusted = *t;
            }
            Ev::Protect { p, tag } => {
                let p = pi(*p);
                real.protect(&ids[p as usize], *tag as u32);
                model.entry(p).or_insert_with(MPeer::new).tags.insert(*tag as u32);
            }
            Ev::Unprotect { p, tag } => {
                let p = pi(*p);
                real.unprotect(&ids[p as usize], *tag as u32);
                if let Some(m) = model.get_mut(&p) {
                    if m.tags.remove(&(*tag as u32)) {
                        obs.label("unprotect-removed-tag");
                    }
                }
            }
            Ev::Archival { p } => {
                let p = pi(*p);
                real.mark_as_archival(&ids[p as usize]);
                model.entry(p).or_insert_with(MPeer::new).archival = true;
            }
            Ev::Agent { p, s } => {
                let p = pi(*p);
                real.on_agent_version(&ids[p as usize], s);
                if let Some(m) = model.get_mut(&p) {
                    if m.connected() {
                        m.kind = kind_of_agent(s);
                        obs.label(match m.kind {
                            Kind::Unknown => "agent-unknown",
                            Kind::Bridge => "agent-bridge",
                            Kind::Full => "agent-full",
                            Kind::Light => "agent-light",
                        });
                    }
                }
            }
            Ev::AddPeerId { p } => {
                let p = pi(*p);
                real.add_peer_id(&ids[p as usize]);
                model.entry(p).or_insert_with(MPeer::new);
            }
            Ev::Gc => {
                real.gc();
                gc_ran = true;
            }
            Ev::Age { secs } => {
                real.verif_age_disconnected(Duration::from_secs(*secs as u64));
                for m in model.values_mut() {
                    if let Some(a) = m.age_ms.as_mut() {
                        *a += *secs as u64 * 1000;
                    }
                }
            }
        }

        let peers = real.peers();

        // ---- gc: nothing connected or protected may be forgotten; model follows what gc dropped
        if gc_ran {
            let present: BTreeSet<u8> = peers.iter().filter_map(|p| idx_of(&p.id)).collect();
            let mut dropped = Vec::new();
            for (i, m) in &model {
                let expired = m.age_ms.is_some_and(|a| a >= EXPIRY_MS);
                if present.contains(i) {
                    if m.connected() {
                        obs.label("gc-kept-connected");
                    }
                    if m.protected() && !m.connected() {
                        obs.label(if expired { "gc-kept-protected-expired" } else { "gc-kept-protected-recent" });
                    }
                    if !m.connected() && !m.protected() {
                        obs.label(if expired { "gc-kept-unprotected-expired" } else { "gc-kept-recently-disconnected" });
                    }
                    continue;
                }
                if m.connected() || m.protected() {
                    obs.fail(
                        "C39:gc-forgot-connected-or-protected",
                        format!(
                            "step {step}: gc removed peer #{i} although the model has it connected={} protected_tags={:?}",
                            m.connected(),
                            m.tags
                        ),
                    )?;
                }
                if expired {
                    obs.label("gc-removed-expired");
                } else {
                    obs.label("gc-removed-not-expired");
                    obs.note(format!("gc removed an unprotected disconnected peer after only {:?} ms of model time", m.age_ms));
                }
                dropped.push(*i);
            }
            for i in dropped {
                model.remove(&i);
            }
        }

        // ---- per-peer state: tracker vs model
        let mut ok = peers.len() == model.len();
        let mut why = String::new();
        if !ok {
            why = format!("tracker has {} peers, model {}", peers.len(), model.len());
        }
        for p in &peers {
            let Some(i) = idx_of(&p.id) else {
                ok = false;
                why = format!("tracker has a peer the history never mentioned: {}", p.id);
                break;
            };
            let Some(m) = model.get(&i) else {
                ok = false;
                why = format!("tracker has peer #{i} which the model does not have");
                break;
            };
            let conns: Vec<usize> = m.conns.iter().copied().collect();
            let tags: Vec<u32> = m.tags.iter().copied().collect();
            if p.connections != conns
                || p.num_connections != conns.len()
                || p.trusted != m.trusted
                || p.archival != m.archival
                || p.node_kind != m.kind.name()
                || p.full != m.kind.is_full()
                || p.protected != tags
                || p.disconnected_for.is_some() != m.age_ms.is_some()
            {
                ok = false;
                why = format!("peer #{i}: tracker {p:?} vs model {m:?}");
                break;
            }
        }
        obs.check(ok, "C39:peer-state-differs-from-model", || format!("step {step} after {ev:?}: {why}"))?;

        // ---- the published statistics equal a recount
        let info = real.info();
        let rr = recount_real(&peers);
        let rm = recount_model(&model);
        obs.check(info == rr, "C39:info-not-recount", || {
            format!("step {step} after {ev:?}: info() = {info:?} but a recount of the tracked peers gives {rr:?}")
        })?;
        obs.check(info == rm, "C39:info-not-recount", || {
            format!("step {step} after {ev:?}: info() = {info:?} but a recount of the model gives {rm:?}")
        })?;
        obs.check(real.all_connections_len() == model.values().map(|m| m.conns.len()).sum::<usize>(), "C39:peer-state-differs-from-model", || {
            format!("step {step}: all_connections() has {} entries", real.all_connections_len())
        })?;

        // ---- per-tag protected counts
        for tag in 0..TAGS {
            let want = model.values().filter(|m| m.tags.contains(&tag)).count();
            let got = real.protected_len(tag);
            obs.check(got == want, "C39:protected-len-mismatch", || {
                format!("step {step} after {ev:?}: protected_len({tag}) = {got}, peers protected with that tag = {want}")
            })?;
        }

        // ---- watch channel
        let wv = real.watch_value();
        let fv = real.fresh_watch_value();
        obs.check(wv == info && fv == info, "C39:watch-value-differs", || {
            format!("step {step}: info() = {info:?}, long-lived watcher sees {wv:?}, fresh watcher sees {fv:?}")
        })?;
        let changed = real.watch_take_changed();
        if info != last_seen {
            obs.label("info-changed");
            obs.check(changed, "C39:watch-not-notified", || {
                format!("step {step} after {ev:?}: info changed {last_seen:?} -> {info:?} without a watch notification")
            })?;
            last_seen = info.clone();
        }

        // ---- classification
        if info.num_connected_peers >= 2 {
            obs.label("two-or-more-connected");
        }
        if info.num_connected_trusted_peers > 0 {
            obs.label("trusted-counted");
        }
        if info.num_connected_full_nodes > 0 {
            obs.label("full-counted");
        }
        if info.num_connected_archival_nodes > 0 {
            obs.label("archival-counted");
        }
        if (0..TAGS).any(|t| real.protected_len(t) >= 2) {
            obs.label("tag-shared-by-peers");
        }
        rolling = rolling.wrapping_mul(0x100000001b3) ^ digest_of(ev);
        // non-trivial: the event changed something the property talks about
        let observable = digest_of(&(&info, (0..TAGS).map(|t| real.protected_len(t)).collect::<Vec<_>>(), peers.len()));
        let changed = observable != last_observable;
        last_observable = observable;
        obs.eval(changed.then_some(rolling));
    }
    Ok(())
}

pub fn run(ctx: &mut Ctx) {
    ctx.assume("the model transcribes the documented event semantics (trust/protection/archival flags persist while disconnected; node kind and archival end with the last connection; agent versions only apply to connected peers); expiry is driven by the additive hook verif_age_disconnected, which moves the stored std Instants into the past");
    ctx.assume("gc is only required to keep connected/protected peers; which unprotected disconnected peers it drops is followed, not asserted");
    ctx.essential(&[
        "gc-removed-expired",
        "gc-kept-protected-expired",
        "gc-kept-connected",
        "info-changed",
        "unprotect-removed-tag",
        "trusted-counted",
        "full-counted",
        "archival-counted",
        "multi-connection-peer",
        "last-connection-removed",
        "tag-shared-by-peers",
    ]);
    let cases = ctx.tier.pick(12_000, 200_000);
    let max_evs = ctx.tier.pick(300, 300);
    ctx.proptest(
        "histories",
        "histories of 10..300 events over <= 8 peers x 3 connection ids (add/remove connection, set_trusted, protect/unprotect tags 0..3, mark_as_archival, on_agent_version, add_peer_id, gc, age-disconnected); one evaluation per event (all oracles after that event). Non-trivial = evaluation after an event that changed the published statistics, a per-tag protected count or the number of tracked peers; distinct by rolling digest of the event prefix",
        cases,
        move || case_strategy(max_evs),
        run_case,
    );
}
