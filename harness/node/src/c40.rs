//! C40 — Shrex peer pools contain only peers that announced the right data.
//!
//! The real `PoolTracker` (through the `PoolTrackerSim` hook) runs over an `InMemoryStore` on a
//! paused current-thread tokio runtime. A generated history of notifications, header arrivals, peer
//! removals, clock advances and polls is interpreted step by step; the oracle is a set of
//! constraints derived from the property statement (not an exact replica of the tracker):
//!
//!  S  after every step, for every height h: `get_pool(h) = Ok(ps)` implies the store holds the
//!     header of h and every p in ps announced exactly that header's data hash for h (since its last
//!     removal) and is not blocked;
//!  W  after every step, every h <= newest validated - 10 yields `HeightTooOld`;
//!  B  at every quiescent point: a peer that announced another hash for a height whose pool is
//!     validated, or announced twice for one height, has appeared in a `BlockPeers` event;
//!  P  no call panics (engine: any escaping panic is a violation).
//!
//! Stated scope: DISTINCT non-empty data hashes per height. Equal hashes at two heights are only
//! exercised by the separate observation `equal-hash-observation`, which can never fail.

use std::collections::{BTreeMap, BTreeSet, HashMap};
use std::sync::{Arc, Mutex, OnceLock};
use std::task::Poll;
use std::time::Duration;

use celestia_types::ExtendedHeader;
use libp2p::PeerId;
use lumina_node::store::{InMemoryStore, Store};
use lumina_node::verif::{PoolTrackerSim, VerifGetPoolError, VerifPoolEvent};
use lv_common::prelude::*;
use lv_gen::chain::{BlockSpec, ChainSpec, DahKind, TimeBase, build_chain};
use lv_gen::square::{SquareKind, SquareSpec};

use crate::c39::peer_id;

const MAX_PEERS: u8 = 6;
const CHAIN_LEN: usize = 36;
const WINDOW: u64 = 10;

#[derive(Clone, Debug, Serialize, Deserialize)]
pub enum HashSel {
    /// the data hash of the chain's header at the notified height
    Right,
    /// a hash no header carries
    Wrong(u8),
    /// the (right) data hash of another height
    OfHeight(u8),
}

#[derive(Clone, Debug, Serialize, Deserialize)]
pub enum Step {
    /// notification for height = store head + dh (clamped to >= 0)
    NotifyNear { p: u8, dh: i8, hash: HashSel },
    /// notification for an absolute height
    NotifyAbs { p: u8, h: u8, hash: HashSel },
    /// append `len` headers directly above the store head
    InsertNext { len: u8 },
    /// new head range above a gap of `gap` missing heights
    InsertJump { gap: u8, len: u8 },
    /// `len` headers directly below the highest stored range (back-filling)
    InsertBelowTop { len: u8 },
    /// arbitrary range (the store may refuse it)
    InsertAt { from: u8, len: u8 },
    RemovePeer { p: u8 },
    Advance { secs: u16 },
    Settle,
}

#[derive(Clone, Debug, Serialize, Deserialize)]
pub struct Case {
    pub seed: u64,
    pub n_peers: u8,
    /// headers 1..=init are in the store before the tracker is constructed
    pub init: u8,
    /// poll the tracker to quiescence after every step (otherwise only at `Settle` steps)
    pub auto_settle: bool,
    pub steps: Vec<Step>,
}

fn hash_sel() -> impl Strategy<Value = HashSel> {
    prop_oneof![
        6 => Just(HashSel::Right),
        2 => (0u8..3).prop_map(HashSel::Wrong),
        1 => (0u8..CHAIN_LEN as u8).prop_map(HashSel::OfHeight),
    ]
}

fn step_strategy() -> impl Strategy<Value = Step> {
    let p = || 0u8..MAX_PEERS;
    prop_oneof![
        12 => (p(), -13i8..=3, hash_sel()).prop_map(|(p, dh, hash)| Step::NotifyNear { p, dh, hash }),
        2 => (p(), 0u8..(CHAIN_LEN as u8 + 4), hash_sel()).prop_map(|(p, h, hash)| Step::NotifyAbs { p, h, hash }),
        4 => (1u8..4).prop_map(|len| Step::InsertNext { len }),
        2 => (prop_oneof![1u8..4, 8u8..14], 1u8..3).prop_map(|(gap, len)| Step::InsertJump { gap, len }),
        1 => (1u8..5).prop_map(|len| Step::InsertBelowTop { len }),
        1 => (0u8..CHAIN_LEN as u8, 1u8..4).prop_map(|(from, len)| Step::InsertAt { from, len }),
        1 => p().prop_map(|p| Step::RemovePeer { p }),
        2 => prop_oneof![3 => 1u16..100, 2 => 110u16..130, 1 => 130u16..400].prop_map(|secs| Step::Advance { secs }),
        5 => Just(Step::Settle),
    ]
}

fn case_strategy(max_steps: usize) -> impl Strategy<Value = Case> {
    (
        any::<u64>(),
        1u8..=MAX_PEERS,
        prop_oneof![1 => Just(0u8), 3 => 1u8..=14],
        prop::bool::weighted(0.6),
        prop::collection::vec(step_strategy(), 5..=max_steps),
    )
        .prop_map(|(seed, n_peers, init, auto_settle, steps)| Case { seed, n_peers, init, auto_settle, steps })
}

pub struct ChainData {
    pub headers: Vec<ExtendedHeader>,
    pub hashes: Vec<[u8; 32]>,
}

fn hash32(h: &ExtendedHeader) -> [u8; 32] {
    h.header.data_hash.expect("generated headers carry a data hash").as_bytes().try_into().expect("sha256 data hash")
}

/// A validated single-validator chain of heights 1..=CHAIN_LEN whose blocks all carry a (tiny)
/// non-empty square; `equal` = Some((a, b)) gives heights a and b the same square.
fn build_chain_data(sel: u64, equal: Option<(usize, usize)>) -> ChainData {
    let sq_seed = |i: usize| -> u64 {
        let i = match equal {
            Some((a, b)) if i == b => a,
            _ => i,
        };
        (sel << 16) ^ (i as u64 + 1).wrapping_mul(0x9E37_79B9_7F4A_7C15)
    };
    let spec = ChainSpec {
        seed: 0xC40 ^ (sel << 8),
        chain_id: "private".into(),
        start_height: 1,
        app_version: 3,
        time_base: TimeBase::Fixed(1_700_000_000),
        set0: vec![(0, 5000)],
        blocks: (0..CHAIN_LEN)
            .map(|i| BlockSpec {
                dt_ms: 6000,
                votes: vec![],
                dah: DahKind::Square(SquareSpec {
                    seed: sq_seed(i),
                    ods_log2: 0,
                    kind: SquareKind::Dummy,
                }),
                next_set: None,
            })
            .collect(),
    };
    let chain = build_chain(&spec);
    let hashes = chain.headers.iter().map(hash32).collect();
    ChainData {
        headers: chain.headers,
        hashes,
    }
}

fn chain_for(sel: u64) -> Arc<ChainData> {
    static CACHE: OnceLock<Mutex<HashMap<u64, Arc<ChainData>>>> = OnceLock::new();
    let cache = CACHE.get_or_init(|| Mutex::new(HashMap::new()));
    if let Some(c) = cache.lock().unwrap().get(&sel) {
        return c.clone();
    }
    let c = Arc::new(build_chain_data(sel, None));
    cache.lock().unwrap().entry(sel).or_insert(c).clone()
}

struct Sim<'a> {
    chain: &'a ChainData,
    ids: Vec<PeerId>,
    store: Arc<InMemoryStore>,
    real: PoolTrackerSim,
    /// heights in the store -> data hash
    stored: BTreeMap<u64, [u8; 32]>,
    /// newest validated height as far as the property's observer can tell
    head: Option<u64>,
    /// accepted announcements per peer since its last removal: height -> hashes
    ann: Vec<BTreeMap<u64, Vec<[u8; 32]>>>,
    /// (peer, height) whose repeated announcement arrived when the pool was already validated, with
    /// the right hash
    dup_after_validation: BTreeSet<(usize, u64)>,
    blocked: BTreeSet<usize>,
    ever_ok: BTreeSet<u64>,
    max_h: u64,
}

impl Sim<'_> {
    fn idx(&self, p: &PeerId) -> Option<usize> {
        self.ids.iter().position(|x| x == p)
    }

    fn threshold(&self) -> Option<u64> {
        self.head.map(|h| h.saturating_sub(WINDOW))
    }

    async fn insert(&mut self, from: u64, len: u64, obs: &mut Obs<'_>) {
        let last = CHAIN_LEN as u64;
        if from == 0 || from > last || len == 0 {
            obs.label("insert-out-of-chain");
            return;
        }
        let to = (from + len - 1).min(last);
        let batch: Vec<ExtendedHeader> = self.chain.headers[(from - 1) as usize..=(to - 1) as usize].to_vec();
        let old_head = self.stored.keys().next_back().copied();
        match self.store.insert(batch).await {
            Ok(()) => {
                for h in from..=to {
                    self.stored.insert(h, self.chain.hashes[(h - 1) as usize]);
                }
                obs.label("insert-ok");
                if let Some(oh) = old_head {
                    if to > oh + WINDOW {
                        obs.label("store-head-jump-gt-10");
                    }
                    if to < oh {
                        obs.label("insert-below-head");
                    }
                }
            }
            Err(_) => obs.label("insert-refused-by-store"),
        }
    }

    fn hash_for(&self, seed: u64, h: u64, sel: &HashSel) -> [u8; 32] {
        let wrong = |salt: u8| lv_gen::refs::sha256(&[b"c40-wrong", &seed.to_le_bytes(), &h.to_le_bytes(), &[salt]]);
        match sel {
            HashSel::Right => {
                if h >= 1 && h <= CHAIN_LEN as u64 {
                    self.chain.hashes[(h - 1) as usize]
                } else {
                    wrong(0xff)
                }
            }
            HashSel::Wrong(s) => wrong(*s),
            HashSel::OfHeight(j) => self.chain.hashes[(*j as usize).min(CHAIN_LEN - 1)],
        }
    }

    fn notify(&mut self, step: usize, p: usize, h: u64, hash: [u8; 32], obs: &mut Obs<'_>) -> Result<(), Failure> {
        if self.blocked.contains(&p) {
            // a blocked peer is blacklisted by the swarm: its messages no longer arrive
            obs.label("notify-from-blocked-peer-not-delivered");
            return Ok(());
        }
        let tracked_before = self.real.tracked_heights();
        let was_ok = self.real.get_pool(h).is_ok();
        let valid = self.real.notify(self.ids[p], h, hash);
        if !valid {
            obs.label("notify-rejected-by-validation");
            return Ok(());
        }
        let accepted = self.threshold().is_some_and(|t| h > t);
        // harness self-check (diagnostic hook): the model's acceptance rule is the tracker's
        let had = tracked_before.iter().any(|(x, _)| *x == h);
        let has = self.real.tracked_heights().iter().any(|(x, _)| *x == h);
        obs.check(has == (had || accepted), "C40:harness-acceptance-desync", || {
            format!("step {step}: notification for height {h}: model accepted={accepted} (head {:?}) but tracker pool existed before={had} after={has}", self.head)
        })?;
        if !accepted {
            obs.label(if self.head.is_none() { "notify-ignored-no-head" } else { "notify-ignored-stale" });
            return Ok(());
        }
        let right = self.stored.get(&h).map(|x| *x == hash);
        obs.label(match (was_ok, right) {
            (true, Some(true)) => "notify-after-validation-right",
            (true, _) => "notify-after-validation-wrong",
            (false, Some(true)) => "notify-header-stored-not-yet-validated",
            (false, Some(false)) => "notify-wrong-header-stored",
            (false, None) => "notify-before-header",
        });
        let v = self.ann[p].entry(h).or_default();
        v.push(hash);
        if v.len() >= 2 {
            obs.label("announced-twice");
            if was_ok && right == Some(true) && v.iter().all(|x| *x == hash) {
                self.dup_after_validation.insert((p, h));
            }
        }
        Ok(())
    }

    /// poll the tracker until it is pending; collect events
    async fn settle(&mut self, step: usize, obs: &mut Obs<'_>) -> Result<(), Failure> {
        let before: Vec<_> = (0..=self.max_h).map(|h| self.real.get_pool(h)).collect();
        let mut events = Vec::new();
        let mut spins = 0u32;
        let real = &mut self.real;
        let quiesced = std::future::poll_fn(|cx| {
            loop {
                spins += 1;
                if spins > 100_000 {
                    return Poll::Ready(false);
                }
                match real.poll(cx) {
                    Poll::Ready(Some(ev)) => events.push(ev),
                    Poll::Ready(None) => {}
                    Poll::Pending => return Poll::Ready(true),
                }
            }
        })
        .await;
        obs.check(quiesced, "C40:poll-does-not-quiesce", || format!("step {step}: PoolTracker::poll kept returning Ready for 100000 polls"))?;
        let mut newly_blocked = BTreeSet::new();
        for ev in events {
            match ev {
                VerifPoolEvent::BlockPeers(ps) => {
                    obs.label("event-block-peers");
                    for p in ps {
                        if let Some(i) = self.idx(&p) {
                            newly_blocked.insert(i);
                        }
                    }
                }
                VerifPoolEvent::AddPeers(_) => obs.label("event-add-peers"),
                VerifPoolEvent::SchedulePendingRequests => {}
            }
        }
        // classify why they were blocked (before forgetting their announcements)
        for &i in &newly_blocked {
            if self.blocked.contains(&i) {
                continue;
            }
            let mut why = "blocked-other(timeout)";
            for (h, v) in &self.ann[i] {
                if v.len() >= 2 {
                    why = "duplicate-announcer-blocked";
                    break;
                }
                if let Some(hh) = self.stored.get(h) {
                    if v.iter().any(|x| x != hh) {
                        why = "wrong-hash-announcer-blocked";
                    }
                }
            }
            obs.label(why);
        }
        for i in newly_blocked {
            self.blocked.insert(i);
            self.ann[i].clear(); // PoolTracker::poll removes a blocked peer from all pools
        }

        // newest validated height, as observable: the store head when the tracker first saw a
        // non-empty store, afterwards the highest height whose pool was ever served
        if self.head.is_none() {
            if let Some(h) = self.stored.keys().next_back() {
                self.head = Some(*h);
                obs.label("initial-head-learned");
            }
        }
        for h in 0..=self.max_h {
            let now = self.real.get_pool(h);
            if now.is_ok() {
                self.ever_ok.insert(h);
                if self.head.is_none_or(|x| h > x) {
                    if self.head.is_some_and(|x| h > x + WINDOW) {
                        obs.label("validated-head-jump-gt-10");
                    }
                    self.head = Some(h);
                }
            }
            match (&before[h as usize], &now) {
                (Err(VerifGetPoolError::CandidatesNotValidated), Ok(_)) => obs.label("candidates-promoted"),
                (Err(VerifGetPoolError::CandidatesNotValidated), Err(VerifGetPoolError::HeightNotTracked)) => obs.label("candidates-timeout"),
                (Err(VerifGetPoolError::CandidatesNotValidated), Err(VerifGetPoolError::HeightTooOld)) => obs.label("candidates-evicted"),
                (Ok(_), Err(VerifGetPoolError::HeightTooOld)) => obs.label("validated-pool-evicted"),
                _ => {}
            }
        }
        // harness self-check (diagnostic hook)
        let th = self.real.subjective_head();
        obs.check(th == self.head, "C40:harness-head-desync", || {
            format!("step {step}: observer's newest validated height {:?} but tracker subjective_head {th:?}", self.head)
        })?;

        // ---- B: blocking obligations at the quiescent point
        for (i, anns) in self.ann.iter().enumerate() {
            if self.blocked.contains(&i) {
                continue;
            }
            for (h, v) in anns {
                if v.len() >= 2 {
                    let sig = if self.dup_after_validation.contains(&(i, *h)) {
                        "C40:duplicate-after-validation-not-blocked"
                    } else {
                        "C40:duplicate-announcement-not-blocked"
                    };
                    obs.fail(
                        sig,
                        format!(
                            "step {step}: peer #{i} announced {} times for height {h} (hashes {:?}) since its last removal and never appeared in a BlockPeers event; get_pool({h}) = {:?}",
                            v.len(),
                            v.iter().map(|x| hex::encode(&x[..4])).collect::<Vec<_>>(),
                            self.real.get_pool(*h)
                        ),
                    )?;
                }
                if self.real.get_pool(*h).is_ok() {
                    if let Some(hh) = self.stored.get(h) {
                        if v.iter().any(|x| x != hh) {
                            obs.fail(
                                "C40:wrong-hash-announcer-not-blocked",
                                format!(
                                    "step {step}: height {h} is validated (stored data hash {}), peer #{i} announced {:?} for it and never appeared in a BlockPeers event",
                                    hex::encode(&hh[..4]),
                                    v.iter().map(|x| hex::encode(&x[..4])).collect::<Vec<_>>()
                                ),
                            )?;
                        }
                    }
                }
            }
        }
        Ok(())
    }

    /// S and W, after every step. Returns whether some pool is currently served and a digest of all answers.
    fn check_pools(&mut self, step: usize, what: &Step, obs: &mut Obs<'_>) -> Result<(bool, u64), Failure> {
        let mut any_ok = false;
        let mut view = 0xcbf29ce484222325u64;
        let thr = self.threshold();
        for h in 0..=self.max_h {
            let stale = thr.is_some_and(|t| h <= t);
            let got = self.real.get_pool(h);
            view = view.wrapping_mul(0x100000001b3) ^ digest_of(&got);
            match got {
                Ok(ps) => {
                    any_ok = true;
                    obs.check(!stale, "C40:stale-height-has-pool", || {
                        format!("step {step} after {what:?}: get_pool({h}) = Ok({} peers) although the newest validated height is {:?}", ps.len(), self.head)
                    })?;
                    let Some(hh) = self.stored.get(&h).copied() else {
                        obs.fail("C40:pool-validated-without-header", format!("step {step} after {what:?}: get_pool({h}) is Ok but the store has no header at {h}"))?;
                        continue;
                    };
                    if !ps.is_empty() {
                        obs.label("pool-nonempty");
                    }
                    let mut seen = BTreeSet::new();
                    for p in &ps {
                        let Some(i) = self.idx(p) else {
                            obs.fail("C40:pool-peer-did-not-announce-stored-hash", format!("step {step}: get_pool({h}) offers unknown peer {p}"))?;
                            continue;
                        };
                        if !seen.insert(i) {
                            obs.label("peer-listed-twice-in-pool");
                        }
                        let announced = self.ann[i].get(&h).is_some_and(|v| v.contains(&hh));
                        obs.check(announced, "C40:pool-peer-did-not-announce-stored-hash", || {
                            format!(
                                "step {step} after {what:?}: get_pool({h}) offers peer #{i}, whose announcements for {h} since its last removal are {:?}; stored data hash {}",
                                self.ann[i].get(&h).map(|v| v.iter().map(|x| hex::encode(&x[..4])).collect::<Vec<_>>()),
                                hex::encode(&hh[..4])
                            )
                        })?;
                        obs.check(!self.blocked.contains(&i), "C40:blocked-peer-in-pool", || {
                            format!("step {step} after {what:?}: get_pool({h}) offers peer #{i}, which was blocked earlier")
                        })?;
                    }
                    if ps.len() >= 2 {
                        obs.label("pool-two-or-more-peers");
                    }
                }
                Err(e) => {
                    if stale {
                        obs.label("stale-height-error");
                        obs.check(e == VerifGetPoolError::HeightTooOld, "C40:stale-height-pool-not-dropped", || {
                            format!("step {step} after {what:?}: get_pool({h}) = {e:?} with newest validated height {:?}: a pool still exists", self.head)
                        })?;
                        if self.ever_ok.contains(&h) {
                            obs.label("stale-height-was-served-before");
                        }
                    }
                }
            }
        }
        Ok((any_ok, view ^ self.blocked.len() as u64))
    }
}

async fn sim(case: &Case, obs: &mut Obs<'_>) -> Result<(), Failure> {
    let chain = chain_for(case.seed % 8);
    // generator self-check: the property's stated scope
    {
        let set: BTreeSet<&[u8; 32]> = chain.hashes.iter().collect();
        if set.len() != chain.hashes.len() {
            return Err(Failure::new("gen", "generated chain has equal data hashes"));
        }
    }
    let n = case.n_peers.clamp(1, MAX_PEERS) as usize;
    let ids: Vec<PeerId> = (0..n as u8).map(|i| peer_id(case.seed, i)).collect();
    let store = Arc::new(InMemoryStore::new());
    let mut stored = BTreeMap::new();
    let init = (case.init as usize).min(CHAIN_LEN);
    if init > 0 {
        store
            .insert(chain.headers[..init].to_vec())
            .await
            .map_err(|e| Failure::new("gen", format!("initial insert failed: {e}")))?;
        for h in 1..=init as u64 {
            stored.insert(h, chain.hashes[(h - 1) as usize]);
        }
    }
    let real = PoolTrackerSim::new(store.clone());
    let mut s = Sim {
        chain: &chain,
        ids,
        store,
        real,
        stored,
        head: None,
        ann: vec![BTreeMap::new(); n],
        dup_after_validation: BTreeSet::new(),
        blocked: BTreeSet::new(),
        ever_ok: BTreeSet::new(),
        max_h: CHAIN_LEN as u64 + 4,
    };
    let mut rolling = digest_bytes(&case.seed.to_le_bytes()) ^ case.init as u64;
    let last = Step::Settle;
    let mut last_view = 0u64;
    let steps = case.steps.iter().chain(std::iter::once(&last));
    for (k, st) in steps.enumerate() {
        let pi = |p: u8| (p as usize).min(n - 1);
        let store_head = s.stored.keys().next_back().copied().unwrap_or(0);
        let mut settled = false;
        match st {
            Step::NotifyNear { p, dh, hash } => {
                let h = (store_head as i64 + *dh as i64).max(0) as u64;
                let hv = s.hash_for(case.seed, h, hash);
                s.notify(k, pi(*p), h, hv, obs)?;
            }
            Step::NotifyAbs { p, h, hash } => {
                let hv = s.hash_for(case.seed, *h as u64, hash);
                s.notify(k, pi(*p), *h as u64, hv, obs)?;
            }
            Step::InsertNext { len } => s.insert(store_head + 1, *len as u64, obs).await,
            Step::InsertJump { gap, len } => s.insert(store_head + 1 + *gap as u64, *len as u64, obs).await,
            Step::InsertBelowTop { len } => {
                // lowest height of the highest stored range
                let mut lo = store_head;
                while lo > 1 && s.stored.contains_key(&(lo - 1)) {
                    lo -= 1;
                }
                let len = (*len as u64).min(lo.saturating_sub(1));
                if len > 0 {
                    s.insert(lo - len, len, obs).await;
                }
            }
            Step::InsertAt { from, len } => s.insert(*from as u64, *len as u64, obs).await,
            Step::RemovePeer { p } => {
                let i = pi(*p);
                let in_pool = (0..=s.max_h).any(|h| s.real.get_pool(h).is_ok_and(|ps| ps.contains(&s.ids[i])));
                s.real.remove_peer(&s.ids[i]);
                s.ann[i].clear();
                if in_pool {
                    obs.label("peer-removed-from-served-pool");
                }
            }
            Step::Advance { secs } => {
                tokio::time::advance(Duration::from_secs(*secs as u64)).await;
            }
            Step::Settle => {
                s.settle(k, obs).await?;
                settled = true;
            }
        }
        if case.auto_settle && !settled {
            s.settle(k, obs).await?;
        }
        let (any_ok, view) = s.check_pools(k, st, obs)?;
        rolling = rolling.wrapping_mul(0x100000001b3) ^ digest_of(st);
        let changed = view != last_view;
        last_view = view;
        obs.eval((any_ok && changed).then_some(rolling));
    }
    Ok(())
}

fn run_case(case: &Case, obs: &mut Obs) -> Result<(), Failure> {
    let rt = tokio::runtime::Builder::new_current_thread()
        .enable_time()
        .start_paused(true)
        .build()
        .map_err(|e| Failure::new("gen", format!("runtime: {e}")))?;
    rt.block_on(sim(case, obs))
}

// ---------------------------------------------------------------- equal-hash observation

#[derive(Clone, Debug, Serialize, Deserialize)]
pub struct EqualCase {
    /// heights a < b with the same data hash
    pub a: u8,
    pub b: u8,
}

/// Outside the stated scope: two heights share a data hash. Both pools get validated, then the head
/// moves so that only `a` is evicted. Records (never fails) whether `get_pool(b)` panics.
fn equal_hash_observation(c: &EqualCase, obs: &mut Obs) -> Result<(), Failure> {
    obs.eval(None);
    let (a, b) = (c.a as u64, c.b as u64);
    let chain = build_chain_data(0xE0 + a + (b << 8), Some((a as usize - 1, b as usize - 1)));
    if chain.hashes[a as usize - 1] != chain.hashes[b as usize - 1] {
        return Err(Failure::new("gen", "equal-hash chain does not have equal hashes"));
    }
    let rt = tokio::runtime::Builder::new_current_thread().enable_time().start_paused(true).build().unwrap();
    let outcome: Result<Result<usize, String>, String> = rt.block_on(async {
        let store = Arc::new(InMemoryStore::new());
        store.insert(chain.headers[..a as usize - 1].to_vec()).await.map_err(|e| e.to_string())?;
        let mut real = PoolTrackerSim::new(store.clone());
        let drain = |real: &mut PoolTrackerSim| {
            let waker = futures::task::noop_waker();
            let mut cx = std::task::Context::from_waker(&waker);
            for _ in 0..10_000 {
                if real.poll(&mut cx).is_pending() {
                    break;
                }
            }
        };
        drain(&mut real);
        let p0 = peer_id(1, 0);
        let p1 = peer_id(1, 1);
        let p2 = peer_id(1, 2);
        real.notify(p0, a, chain.hashes[a as usize - 1]);
        real.notify(p1, b, chain.hashes[b as usize - 1]);
        store.insert(chain.headers[a as usize - 1..b as usize].to_vec()).await.map_err(|e| e.to_string())?;
        drain(&mut real);
        // move the validated head to a + 10: evicts a (and only a, when b > a)
        let top = a + WINDOW;
        store.insert(chain.headers[b as usize..top as usize].to_vec()).await.map_err(|e| e.to_string())?;
        real.notify(p2, top, chain.hashes[top as usize - 1]);
        drain(&mut real);
        Ok(lv_common::no_panic(|| real.get_pool(b).map(|v| v.len()).unwrap_or(usize::MAX)))
    });
    match outcome {
        Ok(Ok(n)) => {
            obs.label("equal-hash-get-pool-returned");
            obs.note(format!("equal data hashes at heights {a} and {b} (outside the stated scope): after evicting {a}, get_pool({b}) returned {n} peers (usize::MAX = error)"));
        }
        Ok(Err(rec)) => {
            obs.label("equal-hash-get-pool-panicked");
            obs.note(format!(
                "equal data hashes at heights {a} and {b} (outside the stated scope): after {a} is evicted, get_pool({b}) panics: {rec}"
            ));
        }
        Err(e) => return Err(Failure::new("gen", format!("equal-hash scenario could not be set up: {e}"))),
    }
    Ok(())
}

pub fn run(ctx: &mut Ctx) {
    ctx.assume("scope as stated: distinct non-empty data hashes per height (self-checked per chain); headers reach the store only through the validating Store::insert; a blocked peer's notifications no longer arrive (the swarm blacklists peers named in BlockPeers), so the history interpreter drops them");
    ctx.assume("notifications are delivered through EdsNotification::deserialize_and_validate exactly as shrex::Behaviour does; the 120 s pool-validation timeout runs on tokio's paused clock; 'newest validated height' = store head when the tracker first sees a non-empty store, then the highest height whose pool was ever served (cross-checked against the tracker's subjective_head through a diagnostic hook)");
    ctx.assume("announcements made before a peer's removal (disconnect) or for heights the tracker ignores (no head yet / at least 10 below the newest validated height) carry no obligation");
    ctx.essential(&[
        "pool-nonempty",
        "pool-two-or-more-peers",
        "wrong-hash-announcer-blocked",
        "duplicate-announcer-blocked",
        "stale-height-error",
        "validated-pool-evicted",
        "notify-after-validation-right",
        "notify-after-validation-wrong",
        "notify-before-header",
        "candidates-promoted",
        "candidates-timeout",
        "peer-removed-from-served-pool",
        "validated-head-jump-gt-10",
        "notify-ignored-stale",
    ]);
    let cases = ctx.tier.pick(50_000, 400_000);
    let max_steps = ctx.tier.pick(60, 100);
    ctx.proptest(
        "histories",
        "histories of 5..60 (thorough 100) steps over <= 6 peers and a validated chain of 36 heights with pairwise distinct non-empty data hashes: notifications (right hash / hash nobody has / right hash of another height; relative to the store head or absolute, incl. height 0 and heights beyond the chain), header insertions (next, head jump over a gap of up to 13, back-fill, arbitrary), peer removal, clock advances up to 400 s (120 s validation timeout), polls to quiescence. One evaluation per step (S, W; B at quiescent points). Non-trivial = evaluation at which at least one height serves a pool and the step changed the observable state (some get_pool answer or the set of blocked peers); distinct by rolling digest of the step prefix",
        cases,
        move || case_strategy(max_steps),
        run_case,
    );
    let eq: Vec<EqualCase> = vec![EqualCase { a: 3, b: 4 }, EqualCase { a: 3, b: 7 }, EqualCase { a: 5, b: 12 }];
    ctx.enumerate(
        "equal-hash-observation",
        "OBSERVATION ONLY (outside the stated scope, cannot fail): two heights a<b with equal data hashes, both validated, then a evicted; records whether get_pool(b) panics. Never non-trivial",
        false,
        eq,
        equal_hash_observation,
    );
}
