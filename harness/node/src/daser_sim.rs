//! `DaserSim` scenario interpreter: the real `lumina_node` `Daser` over a mocked `P2p`, a recording
//! `InMemoryStore` wrapper and the daser's event channel, on a paused `current_thread` runtime.
//!
//! A scenario is plain data (`DaserRecipe`): a chain layout (old + recent headers over real squares),
//! daser parameters and a vector of steps. After every step the sim *settles* (yields until no
//! request, event or store call shows up for `QUIET_YIELDS` consecutive yields; yielding never moves
//! the paused clock) and the oracles of C33 / C34 (and the daser half of C35) are applied to what
//! was recorded, in the order it was recorded.
use std::collections::{BTreeMap, BTreeSet};
use std::sync::Arc;
use std::time::Duration;

use bytes::BytesMut;
use celestia_proto::bitswap::Block;
use celestia_types::sample::{Sample, SampleId};
use celestia_types::{AxisType, ExtendedDataSquare, ExtendedHeader};
use cid::Cid;
use lumina_node::events::{EventSubscriber, NodeEvent};
use lumina_node::node::P2pError;
use lumina_node::store::{Store, StoreError};
use lumina_node::verif::daser::{DaserSim, ShwapRequest};
use lv_common::prelude::*;
use lv_common::Prng;
use lv_gen::chain::{BlockSpec, ChainSpec, DahKind, TimeBase, build_chain};
use lv_gen::square::{SquareKind, SquareSpec};
use prost::Message;
use tokio::sync::oneshot;

use crate::pruner_sim::{
    Op, OpLog, QUIET_YIELDS, RecStore, SETTLE_BUDGET, SimErr, clear_sim_panic, install_panic_probe, new_log, paused_runtime,
    sample_cid64, take_sim_panic,
};

const H: u64 = 3600;
/// the statement's constants (independent of the code's)
const SAMPLES_PER_BLOCK: usize = 16;
const BACKLOG_THRESHOLD: u64 = 512;

#[derive(Clone, Copy, Debug, Default)]
pub struct Mode {
    pub c33: bool,
    pub c34: bool,
    pub c35: bool,
}

#[derive(Clone, Debug, Serialize, Deserialize, PartialEq)]
pub enum DStep {
    /// insert up to `n` headers above everything inserted so far, leaving `gap` heights unsynced
    InsertHead { gap: u8, n: u8 },
    /// insert up to `n` never-stored heights adjacent to a stored range (head unchanged)
    InsertHist { sel: u16, n: u8 },
    /// answer every pending request of one in-progress block with the honest `Sample` block
    AnswerBlock { sel: u16 },
    /// answer `n` pending requests (of any block) honestly
    Answer { sel: u16, n: u8 },
    /// answer one pending request with `Err(RequestTimedOut)`
    FailOne { sel: u16 },
    /// let `pct` percent of the sampling window pass on the virtual clock
    Advance { pct: u8 },
    /// let more than the whole sampling window pass (every pending request times out)
    AdvancePastWindow,
    /// `want_to_prune(h)` for a stored height; when granted and `remove`, `remove_height(h)`
    Prune { sel: u16, remove: bool },
    /// pruner report: highest prunable height (selector over 0..=N+1) and number of prunable blocks
    Report { highest_sel: u16, num: u16 },
    Disconnect,
    Reconnect,
    ExtraPeer,
    /// disconnect+reconnect (or the reverse) without letting the daser run in between
    Flap,
}

#[derive(Clone, Debug, Serialize, Deserialize, PartialEq)]
pub struct DaserRecipe {
    pub seed: u64,
    /// sampling window, hours (>= 6)
    pub sw_h: u8,
    pub limit: u8,
    pub allowance: u8,
    /// headers older than the sampling window (lowest heights, empty blocks)
    pub n_old: u8,
    /// recent blocks: ODS width log2 (0..=5), 255 = the empty block
    pub widths: Vec<u8>,
    /// initially stored ranges as (gap before, length)
    pub layout: Vec<(u8, u8)>,
    pub pre_sampled_pct: u8,
    pub connect_first: bool,
    pub steps: Vec<DStep>,
}

pub struct DaserWorld {
    pub headers: Vec<ExtendedHeader>,
    pub squares: Vec<ExtendedDataSquare>,
    pub n_old: usize,
    pub sampling_window: Duration,
}

pub fn build_daser_world(r: &DaserRecipe) -> DaserWorld {
    let sw = r.sw_h.max(6) as u64 * H;
    let n_old = r.n_old as usize;
    let n_new = r.widths.len();
    let mut ages: Vec<u64> = Vec::new();
    // old: 2h .. 3h beyond the window; recent: between 2h inside the cutoff and 1h before now
    for k in 0..n_old {
        ages.push(sw + 3 * H - (H * (k as u64 + 1)) / (n_old as u64 + 1));
    }
    for k in 0..n_new {
        let hi = sw - 2 * H;
        let lo = H;
        ages.push(hi - (hi - lo) * (k as u64 + 1) / (n_new as u64 + 1));
    }
    let mut rng = Prng::new(r.seed ^ 0xDA5E);
    let mut blocks = Vec::new();
    for i in 0..ages.len() {
        let dt_ms = if i == 0 { 1 } else { ((ages[i - 1] - ages[i]) * 1000).max(1) as u32 };
        let dah = if i < n_old {
            DahKind::Empty
        } else {
            match r.widths[i - n_old] {
                255 => DahKind::Empty,
                l => DahKind::Square(SquareSpec {
                    seed: rng.next_u64(),
                    ods_log2: l.min(5),
                    kind: SquareKind::Dummy,
                }),
            }
        };
        blocks.push(BlockSpec {
            dt_ms,
            votes: vec![],
            dah,
            next_set: None,
        });
    }
    let spec = ChainSpec {
        seed: r.seed,
        chain_id: "private".into(),
        start_height: 1,
        app_version: 3,
        time_base: TimeBase::AgoSecs(ages.first().copied().unwrap_or(H)),
        set0: vec![(0, 5000)],
        blocks,
    };
    let chain = build_chain(&spec);
    let squares = chain.squares.into_iter().map(|s| s.unwrap_or_else(ExtendedDataSquare::empty)).collect();
    DaserWorld {
        headers: chain.headers,
        squares,
        n_old,
        sampling_window: Duration::from_secs(sw),
    }
}

#[derive(Clone, Copy, Debug, PartialEq, Eq)]
enum ReqSt {
    Pending,
    Ok,
    Failed,
    Closed,
}

struct Attempt {
    height: u64,
    shares: Vec<(u16, u16)>,
    reqs: BTreeMap<(u16, u16), ReqSt>,
    /// `SamplingResult.timed_out` as reported by the daser
    result: Option<bool>,
    cancelled: bool,
    marked: bool,
}

impl Attempt {
    fn all_ok(&self) -> bool {
        self.shares.iter().all(|s| self.reqs.get(s) == Some(&ReqSt::Ok))
    }
    fn open(&self) -> bool {
        self.result.is_none() && !self.cancelled
    }
}

struct PendingReq {
    attempt: usize,
    rc: (u16, u16),
    cid: Cid,
    tx: oneshot::Sender<Result<Vec<u8>, P2pError>>,
}

struct Model {
    mode: Mode,
    limit: usize,
    allowance: usize,
    n_old: u64,
    n_total: u64,
    widths: Vec<u16>,
    stored: BTreeSet<u64>,
    top: u64,
    sampled: BTreeSet<u64>,
    in_progress: BTreeSet<u64>,
    timed_out: BTreeSet<u64>,
    promised: BTreeSet<u64>,
    connected: bool,
    peers: u32,
    snap_cur: BTreeSet<u64>,
    snap_old: Option<BTreeSet<u64>>,
    /// head height the daser's pending `wait_new_head` compares against (captured at its last refresh)
    captured_head: u64,
    hp_opts: Vec<Option<u64>>,
    num_opts: Vec<u64>,
    attempts: Vec<Attempt>,
    latest: BTreeMap<u64, usize>,
    pending: Vec<PendingReq>,
    log_pos: usize,
    rd: u64,
    /// (digest, needs the schedule to be non-trivial)
    evals: Vec<u64>,
    any_timeout: bool,
    interleaved: bool,
    last_answered_attempt: Option<usize>,
    start_seq: u64,
    /// per EDS width: rows / cols seen in SamplingStarted and number of shares drawn at random
    spread: BTreeMap<u16, (BTreeSet<u16>, BTreeSet<u16>, u64)>,
}

impl Model {
    fn in_window(&self, h: u64) -> bool {
        h > self.n_old
    }
    fn cand_max(&self, s: &BTreeSet<u64>) -> Option<u64> {
        s.iter()
            .rev()
            .copied()
            .find(|h| !self.sampled.contains(h) && !self.in_progress.contains(h) && !self.promised.contains(h) && !self.timed_out.contains(h))
    }
    fn cand_count(&self, s: &BTreeSet<u64>) -> usize {
        s.iter()
            .filter(|h| !self.sampled.contains(h) && !self.in_progress.contains(h) && !self.promised.contains(h) && !self.timed_out.contains(h))
            .count()
    }
    fn snapshots(&self) -> Vec<(&'static str, &BTreeSet<u64>)> {
        let mut v: Vec<(&'static str, &BTreeSet<u64>)> = vec![("snapshot", &self.snap_cur)];
        if let Some(o) = &self.snap_old {
            v.push(("previous-snapshot", o));
        }
        v.push(("current-store", &self.stored));
        v
    }
    fn end_step(&mut self) {
        self.snap_old = None;
        if self.hp_opts.len() > 1 {
            self.hp_opts.drain(..self.hp_opts.len() - 1);
        }
        if self.num_opts.len() > 1 {
            self.num_opts.drain(..self.num_opts.len() - 1);
        }
    }
    fn on_disconnected(&mut self, obs: &mut Obs) {
        self.connected = false;
        self.in_progress.clear();
        self.timed_out.clear();
        for a in self.attempts.iter_mut() {
            if a.open() {
                a.cancelled = true;
                obs.label("disconnect-cancelled-attempt");
            }
        }
    }
    fn on_connected(&mut self) {
        self.connected = true;
        self.snap_cur = self.stored.clone();
        self.snap_old = None;
        self.captured_head = self.stored.iter().next_back().copied().unwrap_or(0);
    }
    /// Every insert notifies the daser's `wait_new_head`, which refreshes the queue iff the head
    /// height differs from the one captured at the previous refresh (also after the head was pruned).
    fn on_insert(&mut self, obs: &mut Obs) {
        if !self.connected {
            return;
        }
        let head = self.stored.iter().next_back().copied().unwrap_or(0);
        if head != self.captured_head {
            if head < self.captured_head {
                obs.label("refresh-after-head-was-pruned");
            }
            self.snap_old = Some(std::mem::take(&mut self.snap_cur));
            self.snap_cur = self.stored.clone();
            self.captured_head = head;
        }
    }
}

fn on_started(m: &mut Model, obs: &mut Obs, h: u64, square_width: u16, shares: &[(u16, u16)]) -> Result<(), Failure> {
    m.start_seq += 1;
    let known = h >= 1 && h <= m.n_total;
    let w = if known { m.widths[(h - 1) as usize] } else { 0 };
    if m.mode.c33 {
        obs.check(known, "C33:sampling-started-for-unknown-height", || format!("SamplingStarted for height {h} which is not in the chain (1..={})", m.n_total))?;
        obs.check(square_width == w, "C33:wrong-square-width", || format!("SamplingStarted({h}) reports square_width {square_width}, the block's EDS width is {w}"))?;
        let distinct: BTreeSet<(u16, u16)> = shares.iter().copied().collect();
        obs.check(distinct.len() == shares.len(), "C33:duplicate-shares-chosen", || format!("SamplingStarted({h}) lists duplicate shares: {shares:?}"))?;
        obs.check(shares.iter().all(|(r, c)| *r < w && *c < w), "C33:share-outside-square", || format!("SamplingStarted({h}) width {w} lists a share outside the square: {shares:?}"))?;
        let want = (w as usize * w as usize).min(SAMPLES_PER_BLOCK);
        obs.check(shares.len() == want, "C33:wrong-number-of-shares", || format!("SamplingStarted({h}) width {w}: {} shares chosen, expected min(width^2, 16) = {want}", shares.len()))?;
        m.evals.push(m.rd ^ (0x51 + m.start_seq).wrapping_mul(0x9E3779B97F4A7C15));
        obs.label(match w {
            2 => "width-2",
            4 => "width-4",
            8 => "width-8",
            16 => "width-16",
            32 => "width-32",
            _ => "width-64",
        });
        if (w as usize * w as usize) > SAMPLES_PER_BLOCK {
            let e = m.spread.entry(w).or_default();
            for (r, c) in shares {
                e.0.insert(*r);
                e.1.insert(*c);
            }
            e.2 += shares.len() as u64;
        }
    }
    if m.mode.c34 {
        let before = m.in_progress.len();
        obs.check(!m.promised.contains(&h), "C34:started-block-promised-to-pruner", || format!("SamplingStarted({h}) after want_to_prune({h}) was answered true"))?;
        obs.check(!m.in_progress.contains(&h), "C34:started-block-already-in-progress", || format!("SamplingStarted({h}) while a sampling of {h} is still in progress"))?;
        obs.check(!m.sampled.contains(&h), "C34:started-already-sampled-block", || format!("SamplingStarted({h}) but {h} is already sampled"))?;
        obs.check(!m.timed_out.contains(&h), "C34:restarted-timed-out-block-without-reconnect", || format!("SamplingStarted({h}) but {h} already timed out since the last reconnection"))?;
        obs.check(known && m.in_window(h), "C34:started-block-older-than-sampling-window", || format!("SamplingStarted({h}) but the header is more than 2 hours older than the sampling window"))?;
        let snaps = m.snapshots();
        let is_head = snaps.iter().any(|(_, s)| s.iter().next_back() == Some(&h));
        let lim_ok = before < m.limit || (is_head && before < m.limit + m.allowance);
        obs.check(lim_ok, if is_head { "C34:head-allowance-exceeded" } else { "C34:concurrency-limit-exceeded" }, || {
            format!(
                "SamplingStarted({h}) with {before} blocks already in progress {:?}; limit {} (+{} for the newest stored height; {h} is {}the newest stored height)",
                m.in_progress,
                m.limit,
                m.allowance,
                if is_head { "" } else { "not " }
            )
        })?;
        obs.check(snaps.iter().any(|(_, s)| s.contains(&h)), "C34:started-height-not-stored", || format!("SamplingStarted({h}) but {h} is in no view of the store (current {:?})", m.stored))?;
        let mut matched: Vec<&'static str> = Vec::new();
        let mut better = Vec::new();
        for (name, s) in &snaps {
            if s.contains(&h) {
                let mx = m.cand_max(s);
                if mx == Some(h) {
                    matched.push(name);
                } else {
                    better.push((*name, mx));
                }
            }
        }
        obs.check(!matched.is_empty(), "C34:not-the-highest-candidate", || {
            format!(
                "SamplingStarted({h}) but a higher candidate exists under every view of the store the daser can have: {better:?}; sampled {:?} in-progress {:?} promised {:?} timed-out {:?}",
                m.sampled, m.in_progress, m.promised, m.timed_out
            )
        })?;
        if !matched.contains(&"current-store") {
            obs.label("stale-snapshot-start");
        }
        if matched.len() == 1 && matched[0] == "current-store" {
            obs.label("start-matches-current-store-only");
        }
        if matched == ["previous-snapshot"] {
            obs.label("start-matches-previous-snapshot-only");
        }
        // backlog rule: violated only if every report state the daser can hold forbids the start
        let blocked_everywhere = m.hp_opts.iter().all(|hp| m.num_opts.iter().all(|n| *n >= BACKLOG_THRESHOLD && h <= hp.unwrap_or(0)));
        obs.check(!blocked_everywhere, "C34:started-prunable-block-despite-backlog", || {
            format!("SamplingStarted({h}) while the pruner reported highest prunable height {:?} and backlog {:?} (>= 512)", m.hp_opts, m.num_opts)
        })?;
        if m.num_opts.iter().all(|n| *n >= BACKLOG_THRESHOLD) {
            obs.label("started-above-prunable-with-backlog");
        }
        if before + 1 == m.limit {
            obs.label("start-filling-the-limit");
        }
        if before >= m.limit {
            obs.label("head-allowance-used");
        }
        if before + 1 == m.limit + m.allowance && is_head && m.allowance > 0 {
            obs.label("head-allowance-filled");
        }
        let constrained = before >= 1 || m.cand_count(&m.snap_cur) >= 2;
        let d = m.rd ^ (0x34 + m.start_seq).wrapping_mul(0x9E3779B97F4A7C15);
        obs.eval(constrained.then_some(d));
        obs.label("start-judged");
    }
    let idx = m.attempts.len();
    if m.latest.contains_key(&h) {
        obs.label("resampled-height");
    }
    m.attempts.push(Attempt {
        height: h,
        shares: shares.to_vec(),
        reqs: BTreeMap::new(),
        result: None,
        cancelled: false,
        marked: false,
    });
    m.latest.insert(h, idx);
    m.in_progress.insert(h);
    Ok(())
}

fn on_result(m: &mut Model, obs: &mut Obs, h: u64, timed_out: bool) -> Result<(), Failure> {
    m.in_progress.remove(&h);
    if timed_out {
        m.timed_out.insert(h);
        obs.label("sampling-result-timed-out");
    } else {
        m.sampled.insert(h);
        obs.label("sampling-result-ok");
    }
    if let Some(&i) = m.latest.get(&h) {
        m.attempts[i].result = Some(timed_out);
    }
    Ok(())
}

fn on_marked(m: &mut Model, obs: &mut Obs, h: u64) -> Result<(), Failure> {
    if !m.mode.c33 {
        return Ok(());
    }
    let Some(&i) = m.latest.get(&h) else {
        return obs.fail("C33:marked-sampled-without-sampling", format!("mark_as_sampled({h}) but no sampling of {h} was ever started"));
    };
    let a = &m.attempts[i];
    let w = m.widths[(h - 1) as usize] as usize;
    let want = (w * w).min(SAMPLES_PER_BLOCK);
    let ok = a.reqs.values().filter(|s| **s == ReqSt::Ok).count();
    let detail = || {
        format!(
            "mark_as_sampled({h}): chosen shares {:?}; the mocked network delivered a successful answer for {ok} of the required {want}; per-share state {:?}",
            a.shares, a.reqs
        )
    };
    obs.check(!a.cancelled, "C33:marked-sampled-after-cancelled-sampling", detail)?;
    obs.check(a.all_ok() && ok >= want, "C33:marked-sampled-without-full-success", detail)?;
    m.attempts[i].marked = true;
    m.evals.push(m.rd ^ (0x77 + i as u64).wrapping_mul(0x9E3779B97F4A7C15));
    obs.label("marked-sampled-verified");
    Ok(())
}

struct Sim {
    sim: DaserSim,
    events: EventSubscriber,
    store: Arc<RecStore>,
    log: OpLog,
}

fn process_events(s: &mut Sim, m: &mut Model, obs: &mut Obs) -> Result<bool, SimErr> {
    let mut act = false;
    while let Ok(ev) = s.events.try_recv() {
        act = true;
        match ev.event {
            NodeEvent::SamplingStarted { height, square_width, shares } => on_started(m, obs, height, square_width, &shares)?,
            NodeEvent::SamplingResult { height, timed_out, .. } => on_result(m, obs, height, timed_out)?,
            NodeEvent::ShareSamplingResult { .. } => {}
            NodeEvent::FatalDaserError { error } => return Err(SimErr::Inconclusive(format!("daser stopped with a fatal error: {error}"))),
            _ => {}
        }
    }
    Ok(act)
}

fn process_log(s: &mut Sim, m: &mut Model, obs: &mut Obs) -> Result<bool, SimErr> {
    let ops: Vec<Op> = {
        let g = s.log.lock().unwrap();
        g[m.log_pos..].to_vec()
    };
    m.log_pos += ops.len();
    let act = !ops.is_empty();
    for op in ops {
        if let Op::MarkSampled(h) = op {
            on_marked(m, obs, h)?;
        }
    }
    Ok(act)
}

async fn process_requests(s: &mut Sim, m: &mut Model, obs: &mut Obs<'_>) -> Result<bool, SimErr> {
    let mut act = false;
    loop {
        let req = match s.sim.try_next_request() {
            Ok(Some(r)) => r,
            Ok(None) => break,
            Err(e) => return Err(SimErr::Inconclusive(format!("daser sim: {e}"))),
        };
        act = true;
        let ShwapRequest { cid, respond_to } = req;
        let Ok(id) = SampleId::try_from(&cid) else {
            if m.mode.c33 {
                obs.fail("C33:request-is-not-a-sample-cid", format!("GetShwapCid({cid}) does not decode as a sample id"))?;
            }
            continue;
        };
        let (h, rc) = (id.block_height(), (id.row_index(), id.column_index()));
        let att = m.latest.get(&h).copied().filter(|i| m.attempts[*i].shares.contains(&rc) && !m.attempts[*i].reqs.contains_key(&rc));
        let Some(i) = att else {
            if m.mode.c33 {
                obs.fail(
                    "C33:request-outside-chosen-shares",
                    format!("GetShwapCid for share {rc:?} of height {h}, which is not among the shares announced for it (or requested twice)"),
                )?;
            }
            continue;
        };
        let first = m.attempts[i].reqs.is_empty();
        m.attempts[i].reqs.insert(rc, ReqSt::Pending);
        if first && m.mode.c33 {
            // the CIDs of ALL chosen shares must already be in the sampling metadata
            match s.store.get_sampling_metadata(h).await {
                Ok(meta) => {
                    let cids = meta.map(|x| x.cids).unwrap_or_default();
                    let missing: Vec<(u16, u16)> =
                        m.attempts[i].shares.iter().copied().filter(|(r, c)| !cids.contains(&sample_cid64(*r, *c, h))).collect();
                    obs.check(missing.is_empty(), "C33:cid-requested-before-metadata-recorded", || {
                        format!(
                            "first GetShwapCid for height {h} observed while the sampling metadata ({} CIDs) lacks the CIDs of chosen shares {missing:?}",
                            cids.len()
                        )
                    })?;
                    obs.label("metadata-checked-at-first-request");
                    m.evals.push(m.rd ^ (0x99 + i as u64).wrapping_mul(0x9E3779B97F4A7C15));
                }
                Err(StoreError::NotFound) => obs.label("metadata-check-skipped-header-gone"),
                Err(e) => return Err(SimErr::Inconclusive(format!("store: {e}"))),
            }
        }
        m.pending.push(PendingReq { attempt: i, rc, cid, tx: respond_to });
    }
    Ok(act)
}

fn sweep_closed(m: &mut Model, obs: &mut Obs) {
    let mut k = 0;
    while k < m.pending.len() {
        if m.pending[k].tx.is_closed() {
            let p = m.pending.remove(k);
            m.attempts[p.attempt].reqs.insert(p.rc, ReqSt::Closed);
            if !m.attempts[p.attempt].cancelled {
                m.any_timeout = true;
                obs.label("request-timed-out-on-the-virtual-clock");
            }
        } else {
            k += 1;
        }
    }
}

async fn settle(s: &mut Sim, m: &mut Model, obs: &mut Obs<'_>) -> Result<(), SimErr> {
    let mut idle = 0u32;
    let mut iters = 0u32;
    while idle < QUIET_YIELDS {
        tokio::task::yield_now().await;
        let mut act = process_events(s, m, obs)?;
        act |= process_log(s, m, obs)?;
        act |= process_requests(s, m, obs).await?;
        if let Some(f) = take_sim_panic() {
            return Err(f.into());
        }
        idle = if act { 0 } else { idle + 1 };
        iters += 1;
        if iters > SETTLE_BUDGET {
            return Err(SimErr::Inconclusive("daser sim did not become quiescent within the yield budget".into()));
        }
    }
    sweep_closed(m, obs);
    Ok(())
}

async fn advance(s: &mut Sim, m: &mut Model, obs: &mut Obs<'_>, d: Duration) -> Result<(), SimErr> {
    let mut left = d;
    let chunk = Duration::from_secs(H);
    while !left.is_zero() {
        let c = left.min(chunk);
        tokio::time::sleep(c).await;
        left -= c;
        settle(s, m, obs).await?;
    }
    Ok(())
}

fn honest_block(world: &DaserWorld, p: &PendingReq, h: u64) -> Vec<u8> {
    let eds = &world.squares[(h - 1) as usize];
    let sample = Sample::new(p.rc.0, p.rc.1, AxisType::Row, eds).expect("share inside the square");
    let mut container = BytesMut::new();
    sample.encode(&mut container);
    Block {
        cid: p.cid.to_bytes(),
        container: container.to_vec(),
    }
    .encode_to_vec()
}

fn answer_at(world: &DaserWorld, m: &mut Model, obs: &mut Obs, k: usize, honest: bool) {
    let p = m.pending.remove(k);
    let h = m.attempts[p.attempt].height;
    if let Some(prev) = m.last_answered_attempt {
        if prev != p.attempt && m.attempts[prev].open() && m.attempts[prev].reqs.values().any(|s| *s == ReqSt::Pending) {
            m.interleaved = true;
        }
    }
    m.last_answered_attempt = Some(p.attempt);
    let (payload, st) = if honest { (Ok(honest_block(world, &p, h)), ReqSt::Ok) } else { (Err(P2pError::RequestTimedOut), ReqSt::Failed) };
    let st = match p.tx.send(payload) {
        Ok(()) => st,
        Err(_) => ReqSt::Closed,
    };
    if st != ReqSt::Ok && !m.attempts[p.attempt].cancelled {
        m.any_timeout = true;
    }
    obs.label(match st {
        ReqSt::Ok => "answered-honestly",
        ReqSt::Failed => "answered-with-timeout-error",
        _ => "answer-arrived-after-timeout",
    });
    m.attempts[p.attempt].reqs.insert(p.rc, st);
}

async fn insert_range(s: &Sim, m: &mut Model, world: &DaserWorld, lo: u64, hi: u64) -> Result<(), SimErr> {
    let hs = world.headers[(lo - 1) as usize..hi as usize].to_vec();
    s.store.insert(hs).await.map_err(|e| SimErr::Inconclusive(format!("generator: insert {lo}..={hi} failed: {e}")))?;
    for h in lo..=hi {
        m.stored.insert(h);
    }
    m.top = m.top.max(hi);
    Ok(())
}

pub fn run_daser_scenario(r: &DaserRecipe, mode: Mode, obs: &mut Obs) -> Result<(), SimErr> {
    install_panic_probe();
    clear_sim_panic();
    let world = build_daser_world(r);
    let rt = paused_runtime();
    rt.block_on(async {
        let log = new_log();
        let store = Arc::new(RecStore::new(log.clone()));
        let n_total = world.headers.len() as u64;
        let mut m = Model {
            mode,
            limit: r.limit.max(1) as usize,
            allowance: r.allowance as usize,
            n_old: world.n_old as u64,
            n_total,
            widths: world.squares.iter().map(|e| e.square_width()).collect(),
            stored: BTreeSet::new(),
            top: 0,
            sampled: BTreeSet::new(),
            in_progress: BTreeSet::new(),
            timed_out: BTreeSet::new(),
            promised: BTreeSet::new(),
            connected: false,
            peers: 0,
            snap_cur: BTreeSet::new(),
            snap_old: None,
            captured_head: 0,
            hp_opts: vec![None],
            num_opts: vec![0],
            attempts: Vec::new(),
            latest: BTreeMap::new(),
            pending: Vec::new(),
            log_pos: 0,
            rd: digest_of(r),
            evals: Vec::new(),
            any_timeout: false,
            interleaved: false,
            last_answered_attempt: None,
            start_seq: 0,
            spread: BTreeMap::new(),
        };
        let (sim, events) = DaserSim::start(store.clone(), world.sampling_window, m.limit, m.allowance)
            .map_err(|e| SimErr::Inconclusive(format!("daser start: {e}")))?;
        let mut s = Sim { sim, events, store, log };
        // initial layout
        let mut cur = 1u64;
        for (gap, len) in &r.layout {
            let start = cur + *gap as u64;
            if start > n_total {
                break;
            }
            let end = (start + (*len).max(1) as u64 - 1).min(n_total);
            insert_range(&s, &mut m, &world, start, end).await?;
            cur = end + 1;
        }
        let mut rng = Prng::new(r.seed ^ 0x5A3);
        for h in m.stored.clone() {
            if rng.below(100) < r.pre_sampled_pct as u64 {
                Store::mark_as_sampled(&s.store.inner, h).await.map_err(|e| SimErr::Inconclusive(format!("generator: {e}")))?;
                m.sampled.insert(h);
            }
        }
        let t0 = tokio::time::Instant::now();
        settle(&mut s, &mut m, obs).await?;
        if r.connect_first {
            s.sim.announce_peer_connected();
            m.peers = 1;
            m.on_connected();
            settle(&mut s, &mut m, obs).await?;
        }
        if tokio::time::Instant::now() != t0 {
            return Err(SimErr::Inconclusive("harness self-check: settling advanced the virtual clock".into()));
        }
        m.end_step();

        for step in &r.steps {
            match step {
                DStep::InsertHead { gap, n } => {
                    let start = m.top + 1 + *gap as u64;
                    let end = (start + (*n).max(1) as u64 - 1).min(n_total);
                    if start <= end {
                        insert_range(&s, &mut m, &world, start, end).await?;
                        m.on_insert(obs);
                        obs.label("insert-head");
                    }
                }
                DStep::InsertHist { sel, n } => {
                    let head = m.stored.iter().next_back().copied().unwrap_or(0);
                    let mut cands: Vec<(u64, u64)> = Vec::new();
                    for &x in m.stored.iter() {
                        if x > 1 && !m.stored.contains(&(x - 1)) && !m.promised.contains(&(x - 1)) {
                            let mut lo = x - 1;
                            while lo > 1 && !m.stored.contains(&(lo - 1)) && x - lo < *n as u64 {
                                lo -= 1;
                            }
                            cands.push((lo, x - 1));
                        }
                        if x < head && !m.stored.contains(&(x + 1)) {
                            let mut hi = x + 1;
                            while hi + 1 < head && !m.stored.contains(&(hi + 1)) && hi - x < *n as u64 {
                                hi += 1;
                            }
                            cands.push((x + 1, hi));
                        }
                    }
                    // never re-insert a height that was stored before (pruned / promised)
                    cands.retain(|(lo, hi)| (*lo..=*hi).all(|h| !m.latest.contains_key(&h) && !m.promised.contains(&h) && !m.sampled.contains(&h)));
                    if !cands.is_empty() {
                        let (lo, hi) = cands[pick(*sel, cands.len())];
                        insert_range(&s, &mut m, &world, lo, hi).await?;
                        m.on_insert(obs);
                        obs.label("insert-historical");
                    }
                }
                DStep::AnswerBlock { sel } => {
                    let mut atts: Vec<usize> = m.pending.iter().map(|p| p.attempt).collect();
                    atts.sort();
                    atts.dedup();
                    if !atts.is_empty() {
                        let a = atts[pick(*sel, atts.len())];
                        let mut k = 0;
                        while k < m.pending.len() {
                            if m.pending[k].attempt == a {
                                answer_at(&world, &mut m, obs, k, true);
                            } else {
                                k += 1;
                            }
                        }
                    }
                }
                DStep::Answer { sel, n } => {
                    for j in 0..*n {
                        if m.pending.is_empty() {
                            break;
                        }
                        let k = pick(sel.wrapping_add((j as u16).wrapping_mul(7919)), m.pending.len());
                        answer_at(&world, &mut m, obs, k, true);
                    }
                }
                DStep::FailOne { sel } => {
                    if !m.pending.is_empty() {
                        let k = pick(*sel, m.pending.len());
                        answer_at(&world, &mut m, obs, k, false);
                    }
                }
                DStep::Advance { pct } => {
                    let d = world.sampling_window * (*pct).max(1) as u32 / 100;
                    advance(&mut s, &mut m, obs, d).await?;
                    obs.label("advance");
                }
                DStep::AdvancePastWindow => {
                    let d = world.sampling_window + Duration::from_secs(H);
                    advance(&mut s, &mut m, obs, d).await?;
                    obs.label("advance-past-window");
                }
                DStep::Prune { sel, remove } => {
                    let v: Vec<u64> = m.stored.iter().copied().collect();
                    if !v.is_empty() {
                        let h = v[pick(*sel, v.len())];
                        let ans = tokio::time::timeout(Duration::from_secs(600), s.sim.want_to_prune(h)).await;
                        let granted = match ans {
                            Ok(Ok(g)) => g,
                            Ok(Err(e)) => return Err(SimErr::Inconclusive(format!("want_to_prune: {e}"))),
                            Err(_) => return Err(SimErr::Inconclusive("want_to_prune was not answered within 600 virtual seconds".into())),
                        };
                        // everything the daser emitted up to its answer is already queued
                        process_events(&mut s, &mut m, obs)?;
                        if granted {
                            if m.mode.c35 {
                                obs.eval(Some(m.rd ^ (0x35 + h).wrapping_mul(0x9E3779B97F4A7C15)));
                                obs.check(!m.in_progress.contains(&h), "C35:daser-granted-prune-of-block-in-progress", || {
                                    format!("want_to_prune({h}) answered true while the sampling of {h} is in progress (started, no result yet)")
                                })?;
                            }
                            obs.label("prune-granted");
                            m.promised.insert(h);
                            if *remove {
                                s.store.remove_height(h).await.map_err(|e| SimErr::Inconclusive(format!("generator: remove_height({h}): {e}")))?;
                                m.stored.remove(&h);
                                m.sampled.remove(&h);
                                obs.label("pruned-height-removed");
                            }
                        } else {
                            obs.label("prune-refused");
                            if m.mode.c35 {
                                obs.eval(Some(m.rd ^ (0x36 + h).wrapping_mul(0x9E3779B97F4A7C15)));
                                if !m.in_progress.contains(&h) {
                                    obs.label("prune-refused-before-start-event");
                                }
                            }
                        }
                    }
                }
                DStep::Report { highest_sel, num } => {
                    let hp = pick(*highest_sel, n_total as usize + 2) as u64;
                    s.sim.update_highest_prunable_block(hp).await.map_err(|e| SimErr::Inconclusive(format!("report: {e}")))?;
                    s.sim.update_number_of_prunable_blocks(*num as u64).await.map_err(|e| SimErr::Inconclusive(format!("report: {e}")))?;
                    m.hp_opts.push(Some(hp));
                    m.num_opts.push(*num as u64);
                    obs.label(if *num as u64 >= BACKLOG_THRESHOLD { "report-backlog-at-or-above-512" } else { "report-backlog-below-512" });
                }
                DStep::Disconnect => {
                    s.sim.announce_all_peers_disconnected();
                    m.peers = 0;
                    settle(&mut s, &mut m, obs).await?;
                    if m.connected {
                        m.on_disconnected(obs);
                    }
                }
                DStep::Reconnect | DStep::ExtraPeer => {
                    s.sim.announce_peer_connected();
                    m.peers += 1;
                    if !m.connected {
                        m.on_connected();
                        obs.label("reconnect");
                    }
                }
                DStep::Flap => {
                    if m.connected {
                        s.sim.announce_all_peers_disconnected();
                        s.sim.announce_peer_connected();
                        m.peers = 1;
                    } else {
                        s.sim.announce_peer_connected();
                        s.sim.announce_all_peers_disconnected();
                        m.peers = 0;
                    }
                    obs.label("flap");
                }
            }
            settle(&mut s, &mut m, obs).await?;
            // classification of idle states (not asserted: the three properties are safety properties)
            if m.mode.c34 && m.connected && m.in_progress.len() < m.limit {
                if let Some(top) = m.cand_max(&m.snap_cur) {
                    let hp = m.hp_opts.last().copied().flatten().unwrap_or(0);
                    let num = *m.num_opts.last().unwrap();
                    if !m.in_window(top) {
                        obs.label("idle-top-candidate-older-than-window");
                    } else if num >= BACKLOG_THRESHOLD && top <= hp {
                        obs.label("idle-blocked-by-backlog");
                    } else if !m.stored.contains(&top) {
                        obs.label("idle-top-candidate-removed");
                    } else {
                        obs.label("idle-with-startable-candidate");
                    }
                }
            }
            m.end_step();
        }

        // end of schedule: a sampling with any non-successful share must not have marked its height
        settle(&mut s, &mut m, obs).await?;
        if m.mode.c33 {
            let real: BTreeSet<u64> = s.store.get_sampled_ranges().await.map_err(|e| SimErr::Inconclusive(format!("store: {e}")))?.collect();
            for h in &real {
                let pre = !m.latest.contains_key(h);
                let ok = pre || m.attempts[m.latest[h]].marked;
                obs.check(ok, "C33:sampled-range-without-verified-sampling", || {
                    format!("height {h} is in get_sampled_ranges() but its last sampling was not a fully successful one")
                })?;
            }
            for (i, a) in m.attempts.iter().enumerate() {
                let had_failure = a.reqs.values().any(|x| matches!(x, ReqSt::Failed | ReqSt::Closed));
                if had_failure && !a.cancelled {
                    obs.check(!a.marked, "C33:marked-sampled-without-full-success", || {
                        format!("height {} was marked sampled by a sampling with failed shares {:?}", a.height, a.reqs)
                    })?;
                    if a.result.is_some() {
                        obs.label("timeout-block-not-marked");
                        m.evals.push(m.rd ^ (0xAA + i as u64).wrapping_mul(0x9E3779B97F4A7C15));
                    }
                }
            }
            // reachability of every row / column by the random choice (union bound < 1e-12)
            for (w, (rows, cols, n)) in &m.spread {
                let wf = *w as f64;
                let p_miss = 2.0 * wf * (1.0 - 1.0 / wf).powf(*n as f64);
                if p_miss < 1e-12 {
                    obs.label("index-spread-judged");
                    m.evals.push(m.rd ^ (0xBB + *w as u64).wrapping_mul(0x9E3779B97F4A7C15));
                    obs.check(rows.len() == *w as usize && cols.len() == *w as usize, "C33:random-shares-never-reach-part-of-the-square", || {
                        format!(
                            "{n} randomly chosen shares of width-{w} squares never used rows {:?} / columns {:?} (probability under a uniform choice < 1e-12)",
                            (0..*w).filter(|x| !rows.contains(x)).collect::<Vec<_>>(),
                            (0..*w).filter(|x| !cols.contains(x)).collect::<Vec<_>>()
                        )
                    })?;
                }
            }
            let nontrivial = m.any_timeout || m.interleaved;
            if m.any_timeout {
                obs.label("schedule-with-timeout");
            }
            if m.interleaved {
                obs.label("schedule-with-interleaved-answers");
            }
            for d in std::mem::take(&mut m.evals) {
                obs.eval(nontrivial.then_some(d));
            }
        }
        s.sim.stop();
        let _ = tokio::time::timeout(Duration::from_secs(5), s.sim.join()).await;
        Ok(())
    })
}

// ------------------------------------------------------------------------------------------------
// strategies

pub fn width_strategy(big: bool) -> impl Strategy<Value = u8> {
    if big {
        prop_oneof![1 => Just(255u8), 3 => Just(0u8), 3 => Just(1u8), 3 => Just(2u8), 2 => Just(3u8), 1 => Just(4u8), 1 => Just(5u8)].boxed()
    } else {
        prop_oneof![3 => Just(255u8), 3 => Just(0u8), 1 => Just(1u8)].boxed()
    }
}

pub fn dstep_strategy(answer_w: u32, net_w: u32, prune_w: u32, report_w: u32) -> impl Strategy<Value = DStep> {
    prop_oneof![
        3 => (prop_oneof![4 => Just(0u8), 1 => 1u8..4], 1u8..4).prop_map(|(gap, n)| DStep::InsertHead { gap, n }),
        2 => (any::<u16>(), 1u8..5).prop_map(|(sel, n)| DStep::InsertHist { sel, n }),
        answer_w * 3 => any::<u16>().prop_map(|sel| DStep::AnswerBlock { sel }),
        answer_w => (any::<u16>(), 1u8..20).prop_map(|(sel, n)| DStep::Answer { sel, n }),
        1 => any::<u16>().prop_map(|sel| DStep::FailOne { sel }),
        1 => (1u8..100).prop_map(|pct| DStep::Advance { pct }),
        1 => Just(DStep::AdvancePastWindow),
        prune_w => (any::<u16>(), any::<bool>()).prop_map(|(sel, remove)| DStep::Prune { sel, remove }),
        report_w => (any::<u16>(), prop_oneof![Just(0u16), Just(511u16), Just(512u16), Just(513u16), Just(6000u16), any::<u16>()])
            .prop_map(|(highest_sel, num)| DStep::Report { highest_sel, num }),
        net_w => Just(DStep::Disconnect),
        net_w * 2 => Just(DStep::Reconnect),
        1 => Just(DStep::ExtraPeer),
        1 => Just(DStep::Flap),
    ]
}
