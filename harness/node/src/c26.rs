//! C26 — A header session returns exactly the requested range.
//!
//! The real `HeaderSession` (hook `lumina_node::verif::header_session::SessionDriver`) is polled by
//! hand (no runtime, no timers: the session only uses mpsc/oneshot channels), so the harness owns the
//! whole schedule: after every action the session is polled until it is quiescent (its waker is not
//! set and it issued nothing new), newly issued requests are checked against the oracle, then the next
//! recipe step picks one pending request and answers it with a prefix of the request (possibly empty)
//! or a header-ex error. When the recipe's steps are exhausted every remaining request is answered
//! in full, so the session must terminate within `len` further answers.
use std::collections::BTreeSet;
use std::future::Future;
use std::pin::pin;
use std::sync::Arc;
use std::sync::atomic::{AtomicBool, Ordering};
use std::task::{Context, Poll, Wake, Waker};

use celestia_proto::p2p::pb::header_request::Data;
use celestia_types::ExtendedHeader;
use libp2p::request_response::OutboundFailure;
use lumina_node::node::{HeaderExError, P2pError};
use lumina_node::verif::header_session::{HeaderResponder, SessionDriver, TryNext};
use lv_common::prelude::*;
use lv_gen::longchain::cached_chain;

/// limits stated by the property / DESIGN (deliberately NOT read from the code under test)
const MAX_PER_REQUEST: u64 = 64;
const MAX_PENDING: usize = 8;

const CHAIN_SEED: u64 = 0xC26;
const MAX_OFF: u64 = 64;
const MAX_LEN: u64 = 2000;

/// start heights of the cached chains: 1, small, medium, > u32, > 2^53, close to the i64 maximum
const BASES: [u64; 6] = [1, 2, 1000, 1 << 32, (1 << 53) + 7, i64::MAX as u64 - 4200];

#[derive(Clone, Debug, Serialize, Deserialize)]
pub enum Answer {
    Full,
    Empty,
    One,
    AllButOne,
    /// prefix length = pick(f, amount + 1)
    Frac(u16),
    NotFound,
    InvalidResponse,
    Timeout,
    ConnClosed,
}

#[derive(Clone, Debug, Serialize, Deserialize)]
pub struct Step {
    /// which pending request (monotone selector over the pending list, oldest first)
    pub which: u16,
    pub answer: Answer,
}

#[derive(Clone, Debug, Serialize, Deserialize)]
pub struct Case {
    pub base: u8,
    pub off: u16,
    pub len: u16,
    pub steps: Vec<Step>,
    /// after the steps: answer the newest (true) or the oldest (false) pending request in full
    pub tail_newest: bool,
}

fn answer_strategy() -> impl Strategy<Value = Answer> {
    prop_oneof![
        4 => Just(Answer::Full),
        2 => Just(Answer::Empty),
        2 => Just(Answer::One),
        2 => Just(Answer::AllButOne),
        3 => any::<u16>().prop_map(Answer::Frac),
        1 => Just(Answer::NotFound),
        1 => Just(Answer::InvalidResponse),
        1 => Just(Answer::Timeout),
        1 => Just(Answer::ConnClosed),
    ]
}

fn case_strategy(max_steps: usize) -> impl Strategy<Value = Case> {
    let len = prop_oneof![
        2 => 1u16..=16,
        2 => 17u16..=128,
        3 => 129u16..=600,
        3 => 601u16..=2000,
        1 => prop_oneof![Just(1u16), Just(8), Just(9), Just(64), Just(65), Just(512), Just(513), Just(520), Just(2000)],
    ];
    (
        0u8..BASES.len() as u8,
        prop_oneof![2 => Just(0u16), 1 => 0u16..=MAX_OFF as u16],
        len,
        prop::collection::vec((any::<u16>(), answer_strategy()).prop_map(|(which, answer)| Step { which, answer }), 0..=max_steps),
        any::<bool>(),
    )
        .prop_map(|(base, off, len, steps, tail_newest)| Case {
            base,
            off,
            len,
            steps,
            tail_newest,
        })
}

struct Flag(AtomicBool);

impl Wake for Flag {
    fn wake(self: Arc<Self>) {
        self.0.store(true, Ordering::SeqCst);
    }
    fn wake_by_ref(self: &Arc<Self>) {
        self.0.store(true, Ordering::SeqCst);
    }
}

struct Pending {
    height: u64,
    amount: u64,
    tx: HeaderResponder,
}

fn chain_for(base: u8) -> (u64, Arc<Vec<ExtendedHeader>>) {
    let b = BASES[(base as usize).min(BASES.len() - 1)];
    (b, cached_chain(CHAIN_SEED, b, (MAX_OFF + MAX_LEN + 1) as usize))
}

fn run_case(case: &Case, obs: &mut Obs) -> Result<(), Failure> {
    let (base, chain) = chain_for(case.base);
    let len = (case.len as u64).clamp(1, MAX_LEN);
    let off = (case.off as u64).min(MAX_OFF);
    let start = base + off;
    let end = start + len - 1;
    let idx = |h: u64| (h - base) as usize;

    let (mut driver, mut reqs) = SessionDriver::new(start, end);
    let flag = Arc::new(Flag(AtomicBool::new(false)));
    let waker = Waker::from(flag.clone());
    let mut cx = Context::from_waker(&waker);

    let mut pending: Vec<Pending> = Vec::new();
    let mut received: BTreeSet<u64> = BTreeSet::new();
    let mut issued = 0u64;
    let mut step_i = 0usize;
    let mut tail_steps = 0u64;
    let mut any_partial = false;
    let mut any_empty = false;
    let mut any_error = false;
    let mut any_ooo = false;
    let mut max_pending = 0usize;

    let result = {
        let mut fut = pin!(driver.run());
        'outer: loop {
            // ---- run the session to quiescence, checking every request it issues
            let mut spins = 0u32;
            loop {
                flag.0.store(false, Ordering::SeqCst);
                if let Poll::Ready(r) = fut.as_mut().poll(&mut cx) {
                    break 'outer r;
                }
                let mut got = false;
                loop {
                    match reqs.try_next() {
                        TryNext::Request(r) => {
                            got = true;
                            issued += 1;
                            let amount = r.request.amount;
                            let height = match r.request.data {
                                Some(Data::Origin(h)) => h,
                                ref other => {
                                    return obs
                                        .fail("C26:request-not-by-height", format!("session issued a request that is not by height: {other:?}"))
                                        .map(|_| ());
                                }
                            };
                            let ctxs = || format!("range {start}..={end}, request #{issued}: height {height} amount {amount}");
                            obs.check(amount >= 1, "C26:request-empty", || format!("{}: empty request", ctxs()))?;
                            obs.check(amount <= MAX_PER_REQUEST, "C26:request-over-64", || format!("{}: more than 64 headers", ctxs()))?;
                            let last = height.checked_add(amount.max(1) - 1);
                            obs.check(
                                height >= start && last.is_some_and(|l| l <= end),
                                "C26:request-outside-range",
                                || format!("{}: not a sub-range of the session's range", ctxs()),
                            )?;
                            let last = last.unwrap_or(u64::MAX).min(end);
                            if height <= last {
                                if let Some(dup) = received.range(height..=last).next() {
                                    obs.fail(
                                        "C26:request-already-received",
                                        format!("{}: height {dup} was already received", ctxs()),
                                    )?;
                                }
                            }
                            if let Some(p) = pending
                                .iter()
                                .find(|p| p.amount > 0 && amount > 0 && p.height <= last && height <= p.height.saturating_add(p.amount - 1))
                            {
                                obs.fail(
                                    "C26:request-overlaps-pending",
                                    format!("{}: overlaps pending request height {} amount {}", ctxs(), p.height, p.amount),
                                )?;
                            }
                            pending.push(Pending {
                                height,
                                amount,
                                tx: r.respond_to,
                            });
                            max_pending = max_pending.max(pending.len());
                            obs.check(pending.len() <= MAX_PENDING, "C26:more-than-8-pending", || {
                                format!("{}: {} requests pending at once", ctxs(), pending.len())
                            })?;
                        }
                        TryNext::Empty | TryNext::Closed => break,
                    }
                }
                if !got && !flag.0.load(Ordering::SeqCst) {
                    break;
                }
                spins += 1;
                if spins > 100_000 {
                    return obs
                        .fail("C26:busy-loop", format!("range {start}..={end}: session keeps waking itself without issuing requests"))
                        .map(|_| ());
                }
            }

            // ---- quiescent and not finished
            if pending.is_empty() {
                obs.fail(
                    "C26:stalled",
                    format!(
                        "range {start}..={end}: session is idle with no pending request and has not completed ({} of {} heights received)",
                        received.len(),
                        len
                    ),
                )?;
                return Ok(());
            }

            // ---- next action
            let (i, answer) = if let Some(s) = case.steps.get(step_i) {
                step_i += 1;
                (pick(s.which, pending.len()), s.answer.clone())
            } else {
                tail_steps += 1;
                if tail_steps > len + MAX_PENDING as u64 {
                    obs.fail(
                        "C26:no-termination",
                        format!("range {start}..={end}: every request was answered in full {tail_steps} times and the session still runs"),
                    )?;
                    return Ok(());
                }
                (if case.tail_newest { pending.len() - 1 } else { 0 }, Answer::Full)
            };
            if i != 0 {
                any_ooo = true;
            }
            let p = pending.remove(i);
            let amount = p.amount;
            let k = match answer {
                Answer::Full => Some(amount),
                Answer::Empty => Some(0),
                Answer::One => Some(amount.min(1)),
                Answer::AllButOne => Some(amount.saturating_sub(1)),
                Answer::Frac(f) => Some(pick(f, amount as usize + 1) as u64),
                _ => None,
            };
            let msg: Result<Vec<ExtendedHeader>, P2pError> = match k {
                Some(k) => {
                    // a prefix of the request, clipped to what exists in the chain (requests outside the
                    // range were already reported above)
                    let mut v = Vec::with_capacity(k as usize);
                    for h in p.height..p.height.saturating_add(k) {
                        if h >= base && idx(h) < chain.len() {
                            v.push(chain[idx(h)].clone());
                            received.insert(h);
                        } else {
                            break;
                        }
                    }
                    if v.is_empty() {
                        any_empty = true;
                    } else if (v.len() as u64) < amount {
                        any_partial = true;
                    }
                    Ok(v)
                }
                None => {
                    any_error = true;
                    Err(P2pError::HeaderEx(match answer {
                        Answer::NotFound => HeaderExError::HeaderNotFound,
                        Answer::InvalidResponse => HeaderExError::InvalidResponse,
                        Answer::Timeout => HeaderExError::OutboundFailure(OutboundFailure::Timeout),
                        _ => HeaderExError::OutboundFailure(OutboundFailure::ConnectionClosed),
                    }))
                }
            };
            let _ = p.tx.send(msg);
        }
    };

    // ---- completion
    let nontrivial = issued >= 2 && (any_partial || any_empty || any_error || any_ooo);
    obs.eval(nontrivial.then(|| digest_of(case)));
    obs.label("completed");
    if start == 1 {
        obs.label("start-1");
    }
    if start > u32::MAX as u64 {
        obs.label("start-large");
    }
    match len {
        1 => obs.label("len-1"),
        2..=64 => obs.label("len-2..64"),
        65..=512 => obs.label("len-65..512"),
        _ => obs.label("len>512"),
    }
    if any_partial {
        obs.label("partial-answer");
    }
    if any_empty {
        obs.label("empty-answer");
    }
    if any_error {
        obs.label("error-answer");
    }
    if any_ooo {
        obs.label("out-of-order-answer");
    }
    if max_pending == MAX_PENDING {
        obs.label("8-pending-reached");
    }
    if tail_steps == 0 {
        obs.label("completed-within-recipe-steps");
    }

    obs.check(pending.is_empty(), "C26:completed-with-pending", || {
        format!("range {start}..={end}: session completed while {} requests were unanswered", pending.len())
    })?;
    let headers = match result {
        Ok(h) => h,
        Err(e) => {
            obs.fail(
                "C26:unexpected-error",
                format!("range {start}..={end}: only prefixes and header-ex errors were injected, session returned Err({e})"),
            )?;
            return Ok(());
        }
    };
    let got: Vec<u64> = headers.iter().map(|h| h.height()).collect();
    let exact = got.len() as u64 == len
        && got.iter().enumerate().all(|(i, h)| *h == start + i as u64)
        && headers.iter().enumerate().all(|(i, h)| *h == chain[idx(start) + i]);
    obs.check(exact, "C26:result-not-exact-range", || {
        let first_bad = got
            .iter()
            .enumerate()
            .find(|(i, h)| **h != start + *i as u64)
            .map(|(i, h)| format!("position {i} holds height {h}, expected {}", start + i as u64))
            .unwrap_or_else(|| "heights match but a header differs / length differs".into());
        format!("range {start}..={end}: result has {} headers (expected {len}); {first_bad}", got.len())
    })?;
    obs.check(received.len() as u64 == len, "C26:harness-accounting", || {
        format!("harness delivered {} distinct heights for a range of {len}", received.len())
    })?;
    Ok(())
}

pub fn run(ctx: &mut Ctx) {
    ctx.assume("header contents are irrelevant to the session (only heights): single-validator chains from lv_gen::longchain");
    ctx.assume("the limits asserted (<= 64 headers per request, <= 8 pending) are the ones named in the property/DESIGN, not read from the code");
    ctx.assume("responders answer only with prefixes of the request (possibly empty) or HeaderEx errors (NotFound, InvalidResponse, OutboundFailure), as the property's quantifier states");
    ctx.assume("the session is polled by hand with a flag waker; quiescence = poll returned Pending, waker not set, no new request in the channel");
    ctx.essential(&[
        "completed",
        "partial-answer",
        "empty-answer",
        "error-answer",
        "out-of-order-answer",
        "len>512",
        "len-1",
        "start-1",
        "start-large",
        "8-pending-reached",
    ]);
    // build the chains outside of the cases: a generator fault must not look like a finding
    for b in 0..BASES.len() as u8 {
        if let Err(rec) = lv_common::no_panic(|| chain_for(b)) {
            ctx.inconclusive(format!("chain generator fault: {rec}"));
            return;
        }
    }
    let cases = ctx.tier.pick(4000, 60000);
    let max_steps = ctx.tier.pick(120, 300);
    ctx.set_shrink_iters(4000);
    ctx.proptest(
        "session-schedule",
        "one real HeaderSession per case over a range of 1..2000 heights at 6 start-height bases; a proptest recipe of \
         (which pending request, prefix/empty/error answer) steps, then full answers; non-trivial = at least 2 requests issued and at \
         least one truncated/empty/error/out-of-order answer; distinct = digest of the recipe",
        cases,
        move || case_strategy(max_steps),
        run_case,
    );
}
