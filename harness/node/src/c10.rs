//! C10 — Bitswap accepts Shwap blocks only when they verify against the DAH (`ShwapMultihasher`,
//! `get_block_container`), plus the node half of C15: `convert_cid` / `sample_cid` round trips
//! (sub-check `c15-convert-cid`, labels prefixed `cc-`).
//!
//! Hooks: `lumina_node::verif::shwap` (additive wrappers around the crate-private items).
use std::sync::Arc;

use celestia_proto::bitswap::Block;
use celestia_proto::proof::pb::Proof as RawProof;
use celestia_proto::shwap::{Row as RawRow, RowNamespaceData as RawRowNs, Sample as RawSample, Share as RawShare, row::HalfSide};
use celestia_types::nmt::Namespace;
use celestia_types::row::{Row, RowId};
use celestia_types::row_namespace_data::{RowNamespaceData, RowNamespaceDataId};
use celestia_types::sample::{Sample, SampleId};
use celestia_types::{AxisType, DataAvailabilityHeader, ExtendedDataSquare, ExtendedHeader};
use cid::{Cid, CidGeneric};
use lumina_node::store::{InMemoryStore, Store};
use lumina_node::verif::shwap as hook;
use lv_common::prelude::*;
use lv_common::{Prng, no_panic};
use lv_gen::panicsite::site_sig as panic_sig;
use lv_gen::chain::{BlockSpec, ChainSpec, DahKind, TimeBase, build_chain};
use lv_gen::mutate::{ByteMut, VARINT_BOUNDARIES, byte_mut_strategy, put_varint};
use lv_gen::square::{SquareSpec, square_strategy, user_ns};
use multihash::Multihash;
use prost::Message;

const NS: usize = 29;
const SHARE: usize = 512;
const PARITY_NS: [u8; NS] = [0xff; NS];

/// (cid codec, multihash code, digest size)
const SAMPLE: (u64, u64, usize) = (0x7810, 0x7811, 12);
const ROW: (u64, u64, usize) = (0x7800, 0x7801, 10);
const ROWNS: (u64, u64, usize) = (0x7820, 0x7821, 39);

// ------------------------------------------------------------------------------------------ recipe

#[derive(Clone, Debug, Serialize, Deserialize)]
pub enum NsSel {
    Present(u16),
    AbsentInRange(u16),
    Below,
    Above,
    Tx,
    Pfb,
    PrimaryPadding,
    TailPadding,
    Parity,
    User(u16),
}

#[derive(Clone, Debug, Serialize, Deserialize)]
pub enum Kind {
    Sample { r: u16, c: u16, col_axis: bool },
    Row { i: u16 },
    RowNs { ns: NsSel, row: u16 },
}

#[derive(Clone, Debug, Serialize, Deserialize)]
pub enum ProofMut {
    ShiftRange { ds: i8, de: i8 },
    SetStart { k: u8 },
    SetEnd { k: u8 },
    DropNode { i: u16 },
    DupNode { i: u16 },
    SwapNodes { i: u16, j: u16 },
    TruncNodes { n: u16 },
    ClearNodes,
    /// node replaced by a node of the honest proof of another position of the same axis / row
    ForeignNode { i: u16, sel: u16 },
    FlipNodeByte { i: u16, byte: u16, bit: u8 },
    /// min and max namespace of a node exchanged (violates min <= max unless equal)
    NodeNsSwap { i: u16 },
    /// node's namespaces overwritten by the PARITY / zero namespace
    NodeNsSet { i: u16, high: bool },
    /// 0 = cleared, 1 = garbage, 2 = a node of the proof, 3 = flipped bit
    LeafHash { how: u8 },
    FlipIgnoreMax,
    /// pad the node list to n entries by repeating the last node
    ManyNodes { n: u8 },
    DropProof,
}

#[derive(Clone, Debug, Serialize, Deserialize)]
pub enum ContMut {
    Proof(ProofMut),
    AlterShare { share: u16, pos: u16, bit: u8 },
    /// share replaced by the share at another position of the square
    ForeignShare { share: u16, r: u16, c: u16 },
    DropShare { i: u16 },
    DupShare { i: u16 },
    SwapShares { a: u16, b: u16 },
    ClearShares,
    /// shares of the neighbouring namespace of the row added (front or back)
    AddNeighbour { back: bool },
    ReverseShares,
    /// Sample: flip the axis flag; Row: flip the half-side flag
    FlipFlag,
    /// proof replaced by the honest proof of another position / row / namespace
    ProofOf { a: u16, b: u16 },
    /// Row: the right half with the Right flag (an alternative honest encoding)
    RightHalf,
}

#[derive(Clone, Debug, Serialize, Deserialize)]
pub enum CidFault {
    Codec { how: u8 },
    MhCode { how: u8 },
    /// digest shortened / extended by one byte (length field consistent)
    DigestLen { longer: bool },
    /// length field differs from the digest length
    LenField { longer: bool },
    ZeroHeight,
    InvalidNamespace { how: u8 },
    Trailing { n: u8 },
    Version { v: u8 },
    V0,
    Empty,
    Bytes(ByteMut),
}

#[derive(Clone, Debug, Serialize, Deserialize)]
pub enum Fault {
    None,
    /// id of a height that is not in the store: 0 = head+1, 1 = below the first, 2 = u64::MAX, 3 = 2^63, 4 = head + 2^32
    UnknownHeight { how: u8 },
    /// id of another stored height, container of this height
    OtherHeight { hsel: u16 },
    /// id of another coordinate / row / namespace of the same square: 0 = same row other column (Row
    /// ns: other namespace), 1 = other row same column (RowNs: other row), 2 = anything
    OtherId { how: u8, a: u16, b: u16 },
    /// honest container of another type under this id
    OtherType { which: bool },
    Cid(CidFault),
    /// multihash_code argument of another Shwap type while the CID keeps its own type
    CodeMismatch { which: bool },
    /// multihash_code argument that is no Shwap code
    UnknownCode { how: u8 },
    Container(ContMut),
    Container2(ContMut, ContMut),
    ContainerBytes(Vec<ByteMut>),
    BlockBytes(Vec<ByteMut>),
    TruncBlock { pos: u16 },
    EmptyContainer,
    EmptyBlock,
}

#[derive(Clone, Debug, Serialize, Deserialize)]
pub struct BlockCase {
    pub hsel: u16,
    pub kind: Kind,
    pub fault: Fault,
    /// selector for the `get_block_container` sub-check's expected CID
    pub esel: u8,
}

#[derive(Clone, Debug, Serialize, Deserialize)]
pub struct Case {
    pub seed: u64,
    pub app: u8,
    pub start_height: u64,
    pub validators: u8,
    pub squares: Vec<Option<SquareSpec>>,
    pub blocks: Vec<BlockCase>,
}

fn ns_sel_strategy() -> impl Strategy<Value = NsSel> {
    prop_oneof![
        8 => any::<u16>().prop_map(NsSel::Present),
        3 => any::<u16>().prop_map(NsSel::AbsentInRange),
        1 => Just(NsSel::Below),
        1 => Just(NsSel::Above),
        1 => Just(NsSel::Tx),
        1 => Just(NsSel::Pfb),
        1 => Just(NsSel::PrimaryPadding),
        1 => Just(NsSel::TailPadding),
        1 => Just(NsSel::Parity),
        2 => prop_oneof![1u16..14, any::<u16>()].prop_map(NsSel::User),
    ]
}

fn kind_strategy() -> impl Strategy<Value = Kind> {
    prop_oneof![
        3 => (any::<u16>(), any::<u16>(), any::<bool>()).prop_map(|(r, c, col_axis)| Kind::Sample { r, c, col_axis }),
        2 => any::<u16>().prop_map(|i| Kind::Row { i }),
        4 => (ns_sel_strategy(), any::<u16>()).prop_map(|(ns, row)| Kind::RowNs { ns, row }),
    ]
}

fn proof_mut_strategy() -> impl Strategy<Value = ProofMut> {
    prop_oneof![
        3 => (-2i8..=2, -2i8..=2).prop_map(|(ds, de)| ProofMut::ShiftRange { ds, de }),
        1 => (0u8..16).prop_map(|k| ProofMut::SetStart { k }),
        1 => (0u8..16).prop_map(|k| ProofMut::SetEnd { k }),
        3 => any::<u16>().prop_map(|i| ProofMut::DropNode { i }),
        1 => any::<u16>().prop_map(|i| ProofMut::DupNode { i }),
        2 => (any::<u16>(), any::<u16>()).prop_map(|(i, j)| ProofMut::SwapNodes { i, j }),
        2 => any::<u16>().prop_map(|n| ProofMut::TruncNodes { n }),
        1 => Just(ProofMut::ClearNodes),
        2 => (any::<u16>(), any::<u16>()).prop_map(|(i, sel)| ProofMut::ForeignNode { i, sel }),
        2 => (any::<u16>(), any::<u16>(), 0u8..8).prop_map(|(i, byte, bit)| ProofMut::FlipNodeByte { i, byte, bit }),
        1 => any::<u16>().prop_map(|i| ProofMut::NodeNsSwap { i }),
        2 => (any::<u16>(), any::<bool>()).prop_map(|(i, high)| ProofMut::NodeNsSet { i, high }),
        2 => (0u8..4).prop_map(|how| ProofMut::LeafHash { how }),
        1 => Just(ProofMut::FlipIgnoreMax),
        1 => prop_oneof![Just(7u8), Just(63), Just(64), Just(65)].prop_map(|n| ProofMut::ManyNodes { n }),
        1 => Just(ProofMut::DropProof),
    ]
}

fn cont_mut_strategy() -> impl Strategy<Value = ContMut> {
    prop_oneof![
        10 => proof_mut_strategy().prop_map(ContMut::Proof),
        3 => (any::<u16>(), any::<u16>(), 0u8..8).prop_map(|(share, pos, bit)| ContMut::AlterShare { share, pos, bit }),
        3 => (any::<u16>(), any::<u16>(), any::<u16>()).prop_map(|(share, r, c)| ContMut::ForeignShare { share, r, c }),
        2 => any::<u16>().prop_map(|i| ContMut::DropShare { i }),
        1 => any::<u16>().prop_map(|i| ContMut::DupShare { i }),
        2 => (any::<u16>(), any::<u16>()).prop_map(|(a, b)| ContMut::SwapShares { a, b }),
        1 => Just(ContMut::ClearShares),
        2 => any::<bool>().prop_map(|back| ContMut::AddNeighbour { back }),
        1 => Just(ContMut::ReverseShares),
        1 => Just(ContMut::FlipFlag),
        3 => (any::<u16>(), any::<u16>()).prop_map(|(a, b)| ContMut::ProofOf { a, b }),
        1 => Just(ContMut::RightHalf),
    ]
}

fn cid_fault_strategy() -> impl Strategy<Value = CidFault> {
    prop_oneof![
        2 => (0u8..4).prop_map(|how| CidFault::Codec { how }),
        2 => (0u8..4).prop_map(|how| CidFault::MhCode { how }),
        2 => any::<bool>().prop_map(|longer| CidFault::DigestLen { longer }),
        1 => any::<bool>().prop_map(|longer| CidFault::LenField { longer }),
        2 => Just(CidFault::ZeroHeight),
        2 => (0u8..4).prop_map(|how| CidFault::InvalidNamespace { how }),
        1 => (1u8..4).prop_map(|n| CidFault::Trailing { n }),
        1 => prop_oneof![Just(0u8), Just(2), Just(3), Just(0x12)].prop_map(|v| CidFault::Version { v }),
        1 => Just(CidFault::V0),
        1 => Just(CidFault::Empty),
        2 => byte_mut_strategy().prop_map(CidFault::Bytes),
    ]
}

fn fault_strategy() -> impl Strategy<Value = Fault> {
    prop_oneof![
        6 => Just(Fault::None),
        2 => (0u8..5).prop_map(|how| Fault::UnknownHeight { how }),
        2 => any::<u16>().prop_map(|hsel| Fault::OtherHeight { hsel }),
        6 => (0u8..3, any::<u16>(), any::<u16>()).prop_map(|(how, a, b)| Fault::OtherId { how, a, b }),
        1 => any::<bool>().prop_map(|which| Fault::OtherType { which }),
        6 => cid_fault_strategy().prop_map(Fault::Cid),
        1 => any::<bool>().prop_map(|which| Fault::CodeMismatch { which }),
        1 => (0u8..5).prop_map(|how| Fault::UnknownCode { how }),
        20 => cont_mut_strategy().prop_map(Fault::Container),
        4 => (cont_mut_strategy(), cont_mut_strategy()).prop_map(|(a, b)| Fault::Container2(a, b)),
        3 => prop::collection::vec(byte_mut_strategy(), 1..4).prop_map(Fault::ContainerBytes),
        2 => prop::collection::vec(byte_mut_strategy(), 1..3).prop_map(Fault::BlockBytes),
        1 => any::<u16>().prop_map(|pos| Fault::TruncBlock { pos }),
        1 => Just(Fault::EmptyContainer),
        1 => Just(Fault::EmptyBlock),
    ]
}

fn case_strategy(nblocks: usize, max_log2: u8) -> impl Strategy<Value = Case> {
    (
        any::<u64>(),
        1u8..=7,
        prop_oneof![3 => Just(1u64), 2 => 2u64..1000, 1 => (1u64 << 32)..(1u64 << 40)],
        1u8..=3,
        prop::collection::vec(prop_oneof![1 => Just(None), 6 => square_strategy(0, max_log2).prop_map(Some)], 3..=8),
        prop::collection::vec((any::<u16>(), kind_strategy(), fault_strategy(), any::<u8>()).prop_map(|(hsel, kind, fault, esel)| BlockCase { hsel, kind, fault, esel }), 1..=2 * nblocks),
    )
        .prop_map(|(seed, app, start_height, validators, squares, blocks)| Case { seed, app, start_height, validators, squares, blocks })
}

// ------------------------------------------------------------------------------------------ reference index

struct Hdr {
    height: u64,
    eds: ExtendedDataSquare,
    dah: DataAvailabilityHeader,
    w: u16,
    /// distinct namespaces of the ODS, sorted
    present: Vec<[u8; NS]>,
}

struct Env {
    store: Arc<InMemoryStore>,
    /// one long-lived multihasher per store, as bitswap holds it: blocks are hashed in sequence on it
    hasher: hook::VerifMultihasher<InMemoryStore>,
    hdrs: Vec<Hdr>,
}

impl Env {
    fn by_height(&self, h: u64) -> Option<&Hdr> {
        self.hdrs.iter().find(|x| x.height == h)
    }
}

fn share_ns(h: &Hdr, r: u16, c: u16) -> [u8; NS] {
    let half = h.w / 2;
    if r < half && c < half {
        h.eds.share(r, c).unwrap().as_ref()[..NS].try_into().unwrap()
    } else {
        PARITY_NS
    }
}

/// brute-force scan: shares of `ns` in row `row`
fn scan_row(h: &Hdr, row: u16, ns: &[u8; NS]) -> Vec<Vec<u8>> {
    (0..h.w).filter(|c| &share_ns(h, row, *c) == ns).map(|c| h.eds.share(row, c).unwrap().to_vec()).collect()
}

fn row_values(h: &Hdr, i: u16) -> Vec<Vec<u8>> {
    (0..h.w).map(|c| h.eds.share(i, c).unwrap().to_vec()).collect()
}

fn ns_valid(b: &[u8]) -> bool {
    b.len() == NS && match b[0] {
        0 => b[1..19].iter().all(|x| *x == 0),
        255 => b[1..28].iter().all(|x| *x == 0xff),
        _ => false,
    }
}

fn ns_incr(b: &[u8; NS]) -> [u8; NS] {
    let mut o = *b;
    for i in (0..NS).rev() {
        if o[i] == 0xff {
            o[i] = 0;
        } else {
            o[i] += 1;
            break;
        }
    }
    o
}

fn resolve_ns(h: &Hdr, sel: &NsSel) -> [u8; NS] {
    let arr = |n: Namespace| -> [u8; NS] { n.as_bytes().try_into().unwrap() };
    match sel {
        NsSel::Present(s) => h.present[pick(*s, h.present.len())],
        NsSel::AbsentInRange(s) => {
            let gaps: Vec<[u8; NS]> = h.present.windows(2).map(|p| ns_incr(&p[0])).filter(|n| ns_valid(n) && !h.present.contains(n)).collect();
            if gaps.is_empty() { arr(user_ns(*s | 1)) } else { gaps[pick(*s, gaps.len())] }
        }
        NsSel::Below => [0u8; NS],
        NsSel::Above => {
            let mut n = PARITY_NS;
            n[NS - 1] = 0xfd;
            n
        }
        NsSel::Tx => arr(Namespace::TRANSACTION),
        NsSel::Pfb => arr(Namespace::PAY_FOR_BLOB),
        NsSel::PrimaryPadding => arr(Namespace::PRIMARY_RESERVED_PADDING),
        NsSel::TailPadding => arr(Namespace::TAIL_PADDING),
        NsSel::Parity => PARITY_NS,
        NsSel::User(k) => arr(user_ns((*k).max(1))),
    }
}

// ------------------------------------------------------------------------------------------ ids and CIDs (hand encoded)

#[derive(Clone, Debug, PartialEq)]
enum Id {
    Sample { h: u64, r: u16, c: u16 },
    Row { h: u64, i: u16 },
    RowNs { h: u64, i: u16, ns: [u8; NS] },
}

impl Id {
    fn ty(&self) -> (u64, u64, usize) {
        match self {
            Id::Sample { .. } => SAMPLE,
            Id::Row { .. } => ROW,
            Id::RowNs { .. } => ROWNS,
        }
    }
    fn height(&self) -> u64 {
        match self {
            Id::Sample { h, .. } | Id::Row { h, .. } | Id::RowNs { h, .. } => *h,
        }
    }
    fn with_height(&self, nh: u64) -> Id {
        let mut o = self.clone();
        match &mut o {
            Id::Sample { h, .. } | Id::Row { h, .. } | Id::RowNs { h, .. } => *h = nh,
        }
        o
    }
    fn digest(&self) -> Vec<u8> {
        let mut d = Vec::new();
        match self {
            Id::Sample { h, r, c } => {
                d.extend_from_slice(&h.to_be_bytes());
                d.extend_from_slice(&r.to_be_bytes());
                d.extend_from_slice(&c.to_be_bytes());
            }
            Id::Row { h, i } => {
                d.extend_from_slice(&h.to_be_bytes());
                d.extend_from_slice(&i.to_be_bytes());
            }
            Id::RowNs { h, i, ns } => {
                d.extend_from_slice(&h.to_be_bytes());
                d.extend_from_slice(&i.to_be_bytes());
                d.extend_from_slice(ns);
            }
        }
        d
    }
    fn cid_bytes(&self) -> Vec<u8> {
        let (codec, code, _) = self.ty();
        cid_bytes(1, codec, code, &self.digest())
    }
    fn multihash_bytes(&self) -> Vec<u8> {
        let (_, code, _) = self.ty();
        let d = self.digest();
        let mut o = Vec::new();
        put_varint(&mut o, code);
        put_varint(&mut o, d.len() as u64);
        o.extend_from_slice(&d);
        o
    }
}

fn cid_bytes(version: u64, codec: u64, code: u64, digest: &[u8]) -> Vec<u8> {
    let mut o = Vec::new();
    put_varint(&mut o, version);
    put_varint(&mut o, codec);
    put_varint(&mut o, code);
    put_varint(&mut o, digest.len() as u64);
    o.extend_from_slice(digest);
    o
}

fn read_varint(b: &[u8], i: &mut usize) -> Option<u64> {
    let mut v = 0u64;
    for k in 0..10 {
        let x = *b.get(*i)?;
        *i += 1;
        v |= ((x & 0x7f) as u64) << (7 * k);
        if x & 0x80 == 0 {
            return Some(v);
        }
    }
    None
}

/// reference parser of the CID embedded in a block under multihash code `code` (prefix parse, like
/// `Cid::read_bytes`): Some(id) iff it is a well-formed identifier of the type `code` selects
fn ref_parse_id(cid: &[u8], code: u64) -> Option<Id> {
    let ty = [SAMPLE, ROW, ROWNS].into_iter().find(|t| t.1 == code)?;
    let mut i = 0;
    if read_varint(cid, &mut i)? != 1 || read_varint(cid, &mut i)? != ty.0 || read_varint(cid, &mut i)? != ty.1 {
        return None;
    }
    let len = read_varint(cid, &mut i)? as usize;
    if len != ty.2 {
        return None;
    }
    let d = cid.get(i..i + len)?;
    let h = u64::from_be_bytes(d[..8].try_into().unwrap());
    if h == 0 {
        return None;
    }
    let a = u16::from_be_bytes(d[8..10].try_into().unwrap());
    Some(match code {
        c if c == SAMPLE.1 => Id::Sample { h, r: a, c: u16::from_be_bytes(d[10..12].try_into().unwrap()) },
        c if c == ROW.1 => Id::Row { h, i: a },
        _ => {
            let ns: [u8; NS] = d[10..].try_into().unwrap();
            if !ns_valid(&ns) {
                return None;
            }
            Id::RowNs { h, i: a, ns }
        }
    })
}

// ------------------------------------------------------------------------------------------ containers

#[derive(Clone, Debug)]
enum RawC {
    Sample(RawSample),
    Row(RawRow),
    RowNs(RawRowNs),
}

impl RawC {
    fn encode(&self) -> Vec<u8> {
        match self {
            RawC::Sample(s) => s.encode_to_vec(),
            RawC::Row(r) => r.encode_to_vec(),
            RawC::RowNs(r) => r.encode_to_vec(),
        }
    }
    fn proof_mut(&mut self) -> Option<&mut Option<RawProof>> {
        match self {
            RawC::Sample(s) => Some(&mut s.proof),
            RawC::RowNs(r) => Some(&mut r.proof),
            RawC::Row(_) => None,
        }
    }
}

fn honest_sample(h: &Hdr, r: u16, c: u16, col_axis: bool) -> RawSample {
    let axis = if col_axis { AxisType::Col } else { AxisType::Row };
    RawSample::from(Sample::new(r, c, axis, &h.eds).expect("in range"))
}

fn raw_half(h: &Hdr, i: u16, right: bool) -> RawRow {
    let half = h.w / 2;
    let cols = if right { half..h.w } else { 0..half };
    RawRow {
        shares_half: cols.map(|c| RawShare { data: h.eds.share(i, c).unwrap().to_vec() }).collect(),
        half_side: if right { HalfSide::Right as i32 } else { HalfSide::Left as i32 },
    }
}

/// honest row-namespace-data of (ns, row); `.1` = the row's root range covers ns (an honest server
/// would serve this container)
fn honest_rowns(h: &Hdr, ns: &[u8; NS], row: u16) -> (RawRowNs, bool) {
    let n = Namespace::from_raw(ns).expect("valid namespace");
    let rows = h.eds.get_namespace_data(n, &h.dah, h.height).expect("get_namespace_data");
    if let Some((_, d)) = rows.into_iter().find(|(id, _)| id.row_index() == row) {
        return (RawRowNs::from(d), true);
    }
    let proof = h.eds.row_nmt(row).expect("row nmt").get_namespace_proof(*n);
    let d = RowNamespaceData { proof: proof.into(), shares: vec![] };
    (RawRowNs::from(d), false)
}

fn resolve_kind(h: &Hdr, k: &Kind) -> (Id, RawC, bool) {
    let w = h.w as usize;
    match k {
        Kind::Sample { r, c, col_axis } => {
            let (r, c) = (pick(*r, w) as u16, pick(*c, w) as u16);
            (Id::Sample { h: h.height, r, c }, RawC::Sample(honest_sample(h, r, c, *col_axis)), true)
        }
        Kind::Row { i } => {
            let i = pick(*i, w) as u16;
            (Id::Row { h: h.height, i }, RawC::Row(raw_half(h, i, false)), true)
        }
        Kind::RowNs { ns, row } => {
            let ns = resolve_ns(h, ns);
            // bias towards rows that hold the namespace
            let holding: Vec<u16> = (0..h.w).filter(|r| !scan_row(h, *r, &ns).is_empty()).collect();
            let row = if !holding.is_empty() && *row % 4 != 0 { holding[pick(*row, holding.len())] } else { pick(*row, w) as u16 };
            let (raw, served) = honest_rowns(h, &ns, row);
            (Id::RowNs { h: h.height, i: row, ns }, RawC::RowNs(raw), served)
        }
    }
}

fn apply_proof_mut(m: &ProofMut, slot: &mut Option<RawProof>, foreign: &dyn Fn(u16) -> Option<RawProof>) -> &'static str {
    if let ProofMut::DropProof = m {
        *slot = None;
        return "proof-dropped";
    }
    let Some(p) = slot.as_mut() else { return "proof-missing" };
    let n = p.nodes.len();
    match m {
        ProofMut::ShiftRange { ds, de } => {
            p.start = p.start.wrapping_add(*ds as i64);
            p.end = p.end.wrapping_add(*de as i64);
            "proof-shift-range"
        }
        ProofMut::SetStart { k } => {
            p.start = VARINT_BOUNDARIES[*k as usize % 16] as i64;
            "proof-set-start"
        }
        ProofMut::SetEnd { k } => {
            p.end = VARINT_BOUNDARIES[*k as usize % 16] as i64;
            "proof-set-end"
        }
        ProofMut::DropNode { i } => {
            if n > 0 {
                p.nodes.remove(pick(*i, n));
            }
            "proof-drop-node"
        }
        ProofMut::DupNode { i } => {
            if n > 0 {
                let k = pick(*i, n);
                let x = p.nodes[k].clone();
                p.nodes.insert(k, x);
            }
            "proof-dup-node"
        }
        ProofMut::SwapNodes { i, j } => {
            if n > 1 {
                p.nodes.swap(pick(*i, n), pick(*j, n));
            }
            "proof-swap-nodes"
        }
        ProofMut::TruncNodes { n: keep } => {
            p.nodes.truncate(pick(*keep, n));
            "proof-trunc-nodes"
        }
        ProofMut::ClearNodes => {
            p.nodes.clear();
            "proof-clear-nodes"
        }
        ProofMut::ForeignNode { i, sel } => {
            if let Some(f) = foreign(*sel) {
                if n > 0 && !f.nodes.is_empty() {
                    let k = pick(*i, n.min(f.nodes.len()));
                    p.nodes[k] = f.nodes[k].clone();
                }
            }
            "proof-foreign-node"
        }
        ProofMut::FlipNodeByte { i, byte, bit } => {
            if n > 0 {
                let k = pick(*i, n);
                let l = p.nodes[k].len();
                if l > 0 {
                    p.nodes[k][pick(*byte, l)] ^= 1 << (bit % 8);
                }
            }
            "proof-flip-node-byte"
        }
        ProofMut::NodeNsSwap { i } => {
            if n > 0 {
                let k = pick(*i, n);
                if p.nodes[k].len() >= 2 * NS {
                    let (a, b) = p.nodes[k].split_at_mut(NS);
                    a.swap_with_slice(&mut b[..NS]);
                }
            }
            "proof-node-ns-swap"
        }
        ProofMut::NodeNsSet { i, high } => {
            if n > 0 {
                let k = pick(*i, n);
                if p.nodes[k].len() >= 2 * NS {
                    let v = if *high { 0xff } else { 0 };
                    p.nodes[k][..2 * NS].fill(v);
                }
            }
            "proof-node-ns-set"
        }
        ProofMut::LeafHash { how } => {
            match how {
                0 => p.leaf_hash.clear(),
                1 => p.leaf_hash = vec![0xab; 90],
                2 => p.leaf_hash = p.nodes.first().cloned().unwrap_or_else(|| vec![1; 90]),
                _ => {
                    if p.leaf_hash.is_empty() {
                        p.leaf_hash = vec![7; 5];
                    } else {
                        let l = p.leaf_hash.len();
                        p.leaf_hash[l - 1] ^= 1;
                    }
                }
            }
            "proof-leaf-hash"
        }
        ProofMut::FlipIgnoreMax => {
            p.is_max_namespace_ignored = !p.is_max_namespace_ignored;
            "proof-flip-ignore-max"
        }
        ProofMut::ManyNodes { n: want } => {
            let last = p.nodes.last().cloned().unwrap_or_else(|| vec![0; 90]);
            while p.nodes.len() < *want as usize {
                p.nodes.push(last.clone());
            }
            "proof-many-nodes"
        }
        ProofMut::DropProof => unreachable!(),
    }
}

fn apply_cont_mut(m: &ContMut, raw: &mut RawC, h: &Hdr, id: &Id) -> &'static str {
    let w = h.w as usize;
    // the shares list of the container
    fn shares_of(raw: &mut RawC) -> Vec<RawShare> {
        match raw {
            RawC::Sample(s) => s.share.clone().into_iter().collect(),
            RawC::Row(r) => r.shares_half.clone(),
            RawC::RowNs(r) => r.shares.clone(),
        }
    }
    fn set_shares(raw: &mut RawC, v: Vec<RawShare>) {
        match raw {
            RawC::Sample(s) => s.share = v.into_iter().next(),
            RawC::Row(r) => r.shares_half = v,
            RawC::RowNs(r) => r.shares = v,
        }
    }
    let mut sh = shares_of(raw);
    let n = sh.len();
    match m {
        ContMut::Proof(pm) => {
            let foreign = |sel: u16| -> Option<RawProof> {
                match id {
                    Id::Sample { r, c, .. } => {
                        let o = pick(sel, w) as u16;
                        // a proof of another position on the same row (row axis proof)
                        let _ = c;
                        honest_sample(h, *r, o, false).proof
                    }
                    Id::RowNs { ns, .. } => honest_rowns(h, ns, pick(sel, w) as u16).0.proof,
                    Id::Row { .. } => None,
                }
            };
            match raw.proof_mut() {
                Some(slot) => apply_proof_mut(pm, slot, &foreign),
                None => {
                    // rows carry no proof: alter a share instead
                    if let RawC::Row(r) = raw {
                        if let Some(s) = r.shares_half.first_mut() {
                            s.data[SHARE - 1] ^= 1;
                        }
                    }
                    "row-alter-share"
                }
            }
        }
        ContMut::AlterShare { share, pos, bit } => {
            if n > 0 {
                let k = pick(*share, n);
                let l = sh[k].data.len();
                if l > 0 {
                    sh[k].data[pick(*pos, l)] ^= 1 << (bit % 8);
                }
                set_shares(raw, sh);
            }
            "alter-share"
        }
        ContMut::ForeignShare { share, r, c } => {
            let f = RawShare { data: h.eds.share(pick(*r, w) as u16, pick(*c, w) as u16).unwrap().to_vec() };
            if n > 0 {
                sh[pick(*share, n)] = f;
            } else {
                sh.push(f);
            }
            set_shares(raw, sh);
            "foreign-share"
        }
        ContMut::DropShare { i } => {
            if n > 0 {
                sh.remove(pick(*i, n));
                set_shares(raw, sh);
            }
            "drop-share"
        }
        ContMut::DupShare { i } => {
            if n > 0 {
                let k = pick(*i, n);
                let x = sh[k].clone();
                sh.insert(k, x);
                if !matches!(raw, RawC::Sample(_)) {
                    set_shares(raw, sh);
                }
            }
            "dup-share"
        }
        ContMut::SwapShares { a, b } => {
            if n > 1 {
                sh.swap(pick(*a, n), pick(*b, n));
                set_shares(raw, sh);
            }
            "swap-shares"
        }
        ContMut::ClearShares => {
            set_shares(raw, vec![]);
            "clear-shares"
        }
        ContMut::AddNeighbour { back } => {
            if let Id::RowNs { i, ns, .. } = id {
                // neighbouring namespace in that row
                let row_ns: Vec<[u8; NS]> = (0..h.w).map(|c| share_ns(h, *i, c)).collect();
                let nb = if *back { row_ns.iter().find(|x| *x > ns) } else { row_ns.iter().rev().find(|x| *x < ns) };
                if let Some(nb) = nb {
                    let extra: Vec<RawShare> = scan_row(h, *i, nb).into_iter().map(|data| RawShare { data }).collect();
                    if *back {
                        sh.extend(extra);
                    } else {
                        let mut e = extra;
                        e.extend(sh);
                        sh = e;
                    }
                    set_shares(raw, sh);
                }
            }
            "add-neighbour-shares"
        }
        ContMut::ReverseShares => {
            sh.reverse();
            set_shares(raw, sh);
            "reverse-shares"
        }
        ContMut::FlipFlag => {
            match raw {
                RawC::Sample(s) => s.proof_type = if s.proof_type == AxisType::Row as i32 { AxisType::Col as i32 } else { AxisType::Row as i32 },
                RawC::Row(r) => r.half_side = if r.half_side == HalfSide::Left as i32 { HalfSide::Right as i32 } else { HalfSide::Left as i32 },
                RawC::RowNs(r) => {
                    if let Some(p) = r.proof.as_mut() {
                        p.is_max_namespace_ignored = !p.is_max_namespace_ignored;
                    }
                }
            }
            "flip-flag"
        }
        ContMut::ProofOf { a, b } => {
            match (raw, id) {
                (RawC::Sample(s), Id::Sample { .. }) => {
                    s.proof = honest_sample(h, pick(*a, w) as u16, pick(*b, w) as u16, s.proof_type == AxisType::Col as i32).proof;
                }
                (RawC::RowNs(r), Id::RowNs { ns, i, .. }) => {
                    // proof of the same namespace in another row, or of another namespace in this row
                    if a % 2 == 0 {
                        r.proof = honest_rowns(h, ns, pick(*b, w) as u16).0.proof;
                    } else {
                        let o = h.present[pick(*b, h.present.len())];
                        r.proof = honest_rowns(h, &o, *i).0.proof;
                    }
                }
                (RawC::Row(r), _) => {
                    *r = raw_half(h, pick(*a, w) as u16, b % 2 == 1);
                }
                _ => {}
            }
            "proof-of-other"
        }
        ContMut::RightHalf => {
            if let (RawC::Row(r), Id::Row { i, .. }) = (raw, id) {
                *r = raw_half(h, *i, true);
            }
            "row-right-half"
        }
    }
}

fn apply_cid_fault(f: &CidFault, id: &Id) -> (Vec<u8>, &'static str) {
    let (codec, code, _) = id.ty();
    let d = id.digest();
    let others: Vec<(u64, u64, usize)> = [SAMPLE, ROW, ROWNS].into_iter().filter(|t| *t != id.ty()).collect();
    match f {
        CidFault::Codec { how } => {
            let c = match how {
                0 => others[0].0,
                1 => others[1].0,
                2 => 0x55,
                _ => codec + 1,
            };
            (cid_bytes(1, c, code, &d), "cid-wrong-codec")
        }
        CidFault::MhCode { how } => {
            let c = match how {
                0 => others[0].1,
                1 => others[1].1,
                2 => 0x12,
                _ => code + 1,
            };
            (cid_bytes(1, codec, c, &d), "cid-wrong-multihash-code")
        }
        CidFault::DigestLen { longer } => {
            let mut d2 = d.clone();
            if *longer {
                d2.push(0);
            } else {
                d2.pop();
            }
            (cid_bytes(1, codec, code, &d2), "cid-wrong-length")
        }
        CidFault::LenField { longer } => {
            let mut o = Vec::new();
            put_varint(&mut o, 1);
            put_varint(&mut o, codec);
            put_varint(&mut o, code);
            put_varint(&mut o, if *longer { d.len() as u64 + 1 } else { d.len() as u64 - 1 });
            o.extend_from_slice(&d);
            (o, "cid-length-field-mismatch")
        }
        CidFault::ZeroHeight => (id.with_height(0).cid_bytes(), "cid-zero-height"),
        CidFault::InvalidNamespace { how } => match id {
            Id::RowNs { h, i, ns } => {
                let mut n = *ns;
                match how {
                    0 => n[0] = 1,
                    1 => {
                        n[0] = 0;
                        n[5] = 1;
                    }
                    2 => {
                        n = [0xff; NS];
                        n[10] = 0;
                    }
                    _ => n[0] = 254,
                }
                (Id::RowNs { h: *h, i: *i, ns: n }.cid_bytes(), "cid-invalid-namespace")
            }
            _ => (id.with_height(0).cid_bytes(), "cid-zero-height"),
        },
        CidFault::Trailing { n } => {
            let mut b = id.cid_bytes();
            b.extend(std::iter::repeat_n(0x01, *n as usize));
            (b, "cid-trailing-bytes")
        }
        CidFault::Version { v } => (cid_bytes(*v as u64, codec, code, &d), "cid-wrong-version"),
        CidFault::V0 => {
            let mut b = vec![0x12, 0x20];
            b.extend_from_slice(&[0x5a; 32]);
            (b, "cid-v0")
        }
        CidFault::Empty => (vec![], "cid-empty"),
        CidFault::Bytes(m) => (m.apply(&id.cid_bytes()), "cid-byte-mutation"),
    }
}

struct Built {
    /// multihash code passed to the hasher
    code: u64,
    block: Vec<u8>,
    label: &'static str,
    /// honest block for a stored header that an honest server would send
    must_accept: bool,
    /// the id the requester asked for (base id) — used as expected CID by get_block_container
    base: Id,
    faulty: bool,
}

fn build_block(env: &Env, bc: &BlockCase) -> Built {
    let hi = pick(bc.hsel, env.hdrs.len());
    let h = &env.hdrs[hi];
    let w = h.w as usize;
    let (base, honest, served) = resolve_kind(h, &bc.kind);
    let mut id = base.clone();
    let mut raw = honest.clone();
    let mut code = base.ty().1;
    let mut cid: Option<Vec<u8>> = None;
    let mut container: Option<Vec<u8>> = None;
    let mut whole: Option<Vec<u8>> = None;
    let mut label: &'static str = match base {
        Id::Sample { .. } => "honest-sample",
        Id::Row { .. } => "honest-row",
        Id::RowNs { .. } => {
            if served {
                "honest-rowns"
            } else {
                "rowns-row-outside-range"
            }
        }
    };
    let head = env.hdrs.last().unwrap().height;
    let first = env.hdrs[0].height;
    match &bc.fault {
        Fault::None => {}
        Fault::UnknownHeight { how } => {
            let nh = match how {
                0 => head + 1,
                1 => {
                    if first > 1 {
                        first - 1
                    } else {
                        head + 7
                    }
                }
                2 => u64::MAX,
                3 => 1 << 63,
                _ => head + (1 << 32),
            };
            id = base.with_height(nh);
            label = "unknown-height";
        }
        Fault::OtherHeight { hsel } => {
            let o = &env.hdrs[pick(*hsel, env.hdrs.len())];
            id = base.with_height(o.height);
            label = "other-stored-height";
        }
        Fault::OtherId { how, a, b } => {
            let sb = *b;
            let (a, b) = (pick(*a, w) as u16, pick(*b, w) as u16);
            id = match &base {
                Id::Sample { h, r, c } => match how {
                    0 => Id::Sample { h: *h, r: *r, c: a },
                    1 => Id::Sample { h: *h, r: a, c: *c },
                    _ => Id::Sample { h: *h, r: a, c: b },
                },
                Id::Row { h, .. } => Id::Row { h: *h, i: a },
                Id::RowNs { h: hh, i, ns } => match how {
                    0 => Id::RowNs { h: *hh, i: *i, ns: h.present[pick(sb, h.present.len())] },
                    1 => Id::RowNs { h: *hh, i: a, ns: *ns },
                    _ => Id::RowNs { h: *hh, i: a, ns: ns_incr(ns) },
                },
            };
            if let Id::RowNs { ns, .. } = &id {
                if !ns_valid(ns) {
                    id = base.clone();
                }
            }
            label = match (&base, how) {
                (Id::Sample { .. }, 0) => "other-id-sample-same-row",
                (Id::Sample { .. }, 1) => "other-id-sample-same-col",
                (Id::Sample { .. }, _) => "other-id-sample-elsewhere",
                (Id::Row { .. }, _) => "other-id-row",
                (Id::RowNs { .. }, 0) => "other-id-rowns-namespace",
                (Id::RowNs { .. }, _) => "other-id-rowns-row",
            };
        }
        Fault::OtherType { which } => {
            raw = match (&base, which) {
                (Id::Sample { r, .. }, false) => RawC::Row(raw_half(h, *r, false)),
                (Id::Sample { r, c, .. }, true) => RawC::RowNs(honest_rowns(h, &share_ns(h, *r, *c), *r).0),
                (Id::Row { i, .. }, false) => RawC::Sample(honest_sample(h, *i, 0, false)),
                (Id::Row { i, .. }, true) => RawC::RowNs(honest_rowns(h, &share_ns(h, *i, 0), *i).0),
                (Id::RowNs { i, .. }, false) => RawC::Row(raw_half(h, *i, false)),
                (Id::RowNs { i, .. }, true) => RawC::Sample(honest_sample(h, *i, 0, false)),
            };
            label = "other-type-container";
        }
        Fault::Cid(f) => {
            let (b, l) = apply_cid_fault(f, &base);
            cid = Some(b);
            label = l;
        }
        Fault::CodeMismatch { which } => {
            let others: Vec<(u64, u64, usize)> = [SAMPLE, ROW, ROWNS].into_iter().filter(|t| *t != base.ty()).collect();
            code = others[*which as usize].1;
            label = "code-cid-type-mismatch";
        }
        Fault::UnknownCode { how } => {
            code = match how {
                0 => 0x12,
                1 => 0,
                2 => base.ty().0, // the codec instead of the multihash code
                3 => u64::MAX,
                _ => base.ty().1 + 0x100,
            };
            label = "unknown-multihash-code";
        }
        Fault::Container(m) => {
            label = apply_cont_mut(m, &mut raw, h, &base);
        }
        Fault::Container2(m1, m2) => {
            apply_cont_mut(m1, &mut raw, h, &base);
            apply_cont_mut(m2, &mut raw, h, &base);
            label = "two-container-mutations";
        }
        Fault::ContainerBytes(ms) => {
            container = Some(lv_gen::mutate::apply_all(&honest.encode(), ms));
            label = "container-byte-mutation";
        }
        Fault::BlockBytes(ms) => {
            let b = Block { cid: base.cid_bytes(), container: honest.encode() }.encode_to_vec();
            whole = Some(lv_gen::mutate::apply_all(&b, ms));
            label = "block-byte-mutation";
        }
        Fault::TruncBlock { pos } => {
            let b = Block { cid: base.cid_bytes(), container: honest.encode() }.encode_to_vec();
            let p = pick(*pos, b.len());
            whole = Some(b[..p].to_vec());
            label = "truncated-block";
        }
        Fault::EmptyContainer => {
            container = Some(vec![]);
            label = "empty-container";
        }
        Fault::EmptyBlock => {
            whole = Some(vec![]);
            label = "empty-block";
        }
    }
    let honest_block = Block { cid: base.cid_bytes(), container: honest.encode() }.encode_to_vec();
    let block = whole.unwrap_or_else(|| {
        Block { cid: cid.unwrap_or_else(|| id.cid_bytes()), container: container.unwrap_or_else(|| raw.encode()) }.encode_to_vec()
    });
    let unchanged = block == honest_block && code == base.ty().1;
    // an alternative honest encoding of a row (right half) must be accepted as well
    let alt_honest = matches!(&bc.fault, Fault::Container(ContMut::RightHalf)) && matches!(base, Id::Row { .. });
    if unchanged && !matches!(bc.fault, Fault::None) {
        label = "fault-noop";
    }
    Built {
        code,
        block,
        label,
        must_accept: (unchanged && served) || alt_honest,
        base,
        faulty: !unchanged,
    }
}

// ------------------------------------------------------------------------------------------ oracle

/// The container is exactly the data at `id` in the stored square (by value).
fn container_is_data_at(h: &Hdr, id: &Id, container: &[u8]) -> Result<(), String> {
    match id {
        Id::Sample { r, c, .. } => {
            if *r >= h.w || *c >= h.w {
                return Err(format!("coordinates ({r},{c}) outside the square of width {}", h.w));
            }
            let raw = RawSample::decode(container).map_err(|e| format!("container is no Sample protobuf: {e}"))?;
            let got = raw.share.map(|s| s.data).ok_or("sample without share")?;
            if got != h.eds.share(*r, *c).unwrap().to_vec() {
                return Err(format!("sample share is not eds.share({r},{c})"));
            }
        }
        Id::Row { i, .. } => {
            if *i >= h.w {
                return Err(format!("row {i} outside the square of width {}", h.w));
            }
            let raw = RawRow::decode(container).map_err(|e| format!("container is no Row protobuf: {e}"))?;
            let right = raw.half_side() == HalfSide::Right;
            let got: Vec<Vec<u8>> = raw.shares_half.into_iter().map(|s| s.data).collect();
            let want = row_values(h, *i);
            let half = h.w as usize / 2;
            let want_half = if right { &want[half..] } else { &want[..half] };
            if got != want_half {
                return Err(format!("row half ({}) is not the committed half of eds.row({i})", if right { "right" } else { "left" }));
            }
        }
        Id::RowNs { i, ns, .. } => {
            if *i >= h.w {
                return Err(format!("row {i} outside the square of width {}", h.w));
            }
            let raw = RawRowNs::decode(container).map_err(|e| format!("container is no RowNamespaceData protobuf: {e}"))?;
            let got: Vec<Vec<u8>> = raw.shares.into_iter().map(|s| s.data).collect();
            let want = scan_row(h, *i, ns);
            // Interpretation (see report): parity shares of a DATA row are invisible to namespace
            // queries (the NMT ignores the max namespace, the row root's range excludes PARITY,
            // `row_contains` is false and no caller requests it) — the empty answer is admitted too.
            let parity_in_data_row = ns == &PARITY_NS && *i < h.w / 2;
            if parity_in_data_row && got.is_empty() {
                return Ok(());
            }
            if got != want {
                return Err(format!("{} shares presented, brute-force scan of the namespace in row {i} has {} (or values differ)", got.len(), want.len()));
            }
        }
    }
    Ok(())
}

/// does lumina's own public decoder take the container under `id`? (used only for the non-trivial rule)
fn container_decodes(id: &Id, container: &[u8]) -> bool {
    no_panic(|| match id {
        Id::Sample { h, r, c } => SampleId::new(*r, *c, *h).ok().map(|i| Sample::decode(i, container).is_ok()),
        Id::Row { h, i } => RowId::new(*i, *h).ok().map(|x| Row::decode(x, container).is_ok()),
        Id::RowNs { h, i, ns } => Namespace::from_raw(ns)
            .ok()
            .and_then(|n| RowNamespaceDataId::new(n, *i, *h).ok())
            .map(|x| RowNamespaceData::decode(x, container).is_ok()),
    })
    .ok()
    .flatten()
    .unwrap_or(false)
}

fn judge_hash(obs: &mut Obs, env: &Env, b: &Built) -> Result<(), Failure> {
    // reference view of the block
    let ref_block = Block::decode(b.block.as_slice()).ok();
    let ref_id = ref_block.as_ref().and_then(|blk| ref_parse_id(&blk.cid, b.code));
    let ref_hdr = ref_id.as_ref().and_then(|i| env.by_height(i.height()));
    let reaches_verify = match (&ref_block, &ref_id, ref_hdr) {
        (Some(blk), Some(id), Some(_)) => container_decodes(id, &blk.container),
        _ => false,
    };
    let nontrivial = b.faulty && reaches_verify;
    obs.eval(nontrivial.then(|| digest_bytes(&b.block) ^ b.code.wrapping_mul(0x9E3779B97F4A7C15)));
    obs.label(b.label);
    if nontrivial {
        obs.label("fault-reaches-container-verification");
    }
    let res = match no_panic(|| env.hasher.hash(b.code, &b.block)) {
        Ok(r) => r,
        Err(rec) => {
            obs.label("panicked");
            return obs.fail(
                &panic_sig(&rec),
                format!("ShwapMultihasher::hash panicked ({}, code {:#x}, block {}): {rec}", b.label, b.code, hex::encode(&b.block[..b.block.len().min(4000)])),
            );
        }
    };
    match res {
        Ok(mh) => {
            obs.label("accepted");
            let what = format!("{} (code {:#x})", b.label, b.code);
            let Some(blk) = ref_block else {
                return obs.fail("C10:accepted-undecodable-block", format!("{what}: hash Ok although the block is no bitswap.Block protobuf"));
            };
            let Some(id) = ref_id else {
                return obs.fail("C10:accepted-malformed-id", format!("{what}: hash Ok although the embedded CID {} is no valid identifier of the type selected by the multihash code", hex::encode(&blk.cid)));
            };
            let Some(h) = ref_hdr else {
                return obs.fail("C10:accepted-unknown-height", format!("{what}: hash Ok for {id:?} although no header of that height is stored"));
            };
            if let Err(why) = container_is_data_at(h, &id, &blk.container) {
                obs.fail("C10:accepted-container-is-not-data-at-id", format!("{what}: hash Ok for {id:?} (square width {}), but {why}", h.w))?;
            }
            if mh != id.multihash_bytes() {
                obs.fail("C10:wrong-multihash", format!("{what}: hash returned {} but multihash(id) is {}", hex::encode(&mh), hex::encode(id.multihash_bytes())))?;
            }
        }
        Err(e) => {
            obs.label("rejected");
            if b.must_accept {
                obs.fail("C10:honest-rejected", format!("honest block {:?} ({}) rejected: {e}", b.base, b.label))?;
            }
            if b.label == "unknown-multihash-code" && e != hook::HashError::UnknownMultihashCode {
                obs.note(format!("unknown multihash code reported as {e:?} rather than UnknownMultihashCode"));
            }
        }
    }
    Ok(())
}

/// `get_block_container(expected, block)` returns the container iff the embedded CID equals `expected`.
fn judge_gbc(obs: &mut Obs, b: &Built, esel: u8) -> Result<(), Failure> {
    let ref_block = Block::decode(b.block.as_slice()).ok();
    let embedded: Option<Cid> = ref_block.as_ref().and_then(|blk| Cid::read_bytes(blk.cid.as_slice()).ok());
    // expected CID: what the requester asked for (base id), or the embedded one, or a neighbour
    let base_cid = Cid::read_bytes(b.base.cid_bytes().as_slice()).expect("base cid parses");
    let (expected, elabel) = match (esel % 4, &embedded) {
        (0, Some(e)) => (*e, "gbc-expected-is-embedded"),
        (1, _) => {
            let o = match &b.base {
                Id::Sample { h, r, c } => Id::Sample { h: *h, r: *r, c: c.wrapping_add(1) },
                Id::Row { h, i } => Id::Row { h: *h, i: i.wrapping_add(1) },
                Id::RowNs { h, i, ns } => Id::RowNs { h: h.wrapping_add(1).max(1), i: *i, ns: *ns },
            };
            (Cid::read_bytes(o.cid_bytes().as_slice()).expect("cid parses"), "gbc-expected-is-neighbour")
        }
        _ => (base_cid, "gbc-expected-is-requested"),
    };
    let equal = embedded.as_ref() == Some(&expected);
    let nontrivial = !equal || b.faulty;
    obs.eval(nontrivial.then(|| digest_bytes(&b.block) ^ digest_bytes(&expected.to_bytes())));
    obs.label(elabel);
    obs.label(if equal { "gbc-cid-equal" } else { "gbc-cid-differs" });
    let res = match no_panic(|| hook::get_block_container(&expected, &b.block)) {
        Ok(r) => r,
        Err(rec) => return obs.fail(&panic_sig(&rec), format!("get_block_container panicked on {}: {rec}", hex::encode(&b.block[..b.block.len().min(2000)]))),
    };
    match res {
        Ok(c) => {
            obs.label("gbc-returned");
            if !equal {
                obs.fail("C10:get-block-container-cid-not-equal", format!("container returned although the embedded CID {:?} differs from the expected {expected} ({})", embedded.map(|c| c.to_string()), b.label))?;
            }
            if Some(&c) != ref_block.as_ref().map(|b| &b.container) {
                obs.fail("C10:get-block-container-wrong-bytes", format!("returned bytes are not the block's container field ({})", b.label))?;
            }
        }
        Err(e) => {
            obs.label("gbc-refused");
            if equal {
                obs.fail("C10:get-block-container-refused-equal-cid", format!("embedded CID equals the expected {expected} but the container was refused: {e}"))?;
            }
        }
    }
    Ok(())
}

fn build_env(case: &Case) -> Result<Env, Failure> {
    let spec = ChainSpec {
        seed: case.seed,
        chain_id: "private".into(),
        start_height: case.start_height,
        app_version: case.app,
        time_base: TimeBase::Fixed(1_600_000_000 + case.seed % 100_000_000),
        set0: (0..case.validators).map(|i| (i, 10 + i as u64)).collect(),
        blocks: case
            .squares
            .iter()
            .map(|s| BlockSpec {
                dt_ms: 6000,
                votes: vec![],
                dah: match s {
                    Some(s) => DahKind::Square(s.clone()),
                    None => DahKind::Empty,
                },
                next_set: None,
            })
            .collect(),
    };
    let chain = build_chain(&spec);
    let store = Arc::new(InMemoryStore::new());
    let headers: Vec<ExtendedHeader> = chain.headers.clone();
    futures::executor::block_on(store.insert(headers)).map_err(|e| Failure::new("gen", format!("store refused the generated chain: {e}")))?;
    let hdrs = chain
        .headers
        .iter()
        .zip(chain.squares.iter())
        .map(|(hd, sq)| {
            let eds = sq.clone().unwrap_or_else(ExtendedDataSquare::empty);
            let w = eds.square_width();
            let half = w / 2;
            let mut present: Vec<[u8; NS]> = (0..half).flat_map(|r| (0..half).map(move |c| (r, c))).map(|(r, c)| eds.share(r, c).unwrap().as_ref()[..NS].try_into().unwrap()).collect();
            present.sort();
            present.dedup();
            Hdr { height: hd.height(), dah: hd.dah.clone(), eds, w, present }
        })
        .collect();
    let hasher = hook::VerifMultihasher::new(store.clone());
    Ok(Env { store, hasher, hdrs })
}

fn run_store_case(case: &Case, obs: &mut Obs) -> Result<(), Failure> {
    let env = build_env(case)?;
    // systematic honest blocks: per header one sample per axis, one data row, one parity row, every
    // present namespace in its first row
    for (hi, h) in env.hdrs.iter().enumerate() {
        let hsel = ((hi as u32 * 65536 + 32768) / env.hdrs.len() as u32) as u16;
        debug_assert_eq!(pick(hsel, env.hdrs.len()), hi);
        let mut kinds = vec![
            Kind::Sample { r: (case.seed >> 8) as u16, c: (case.seed >> 24) as u16, col_axis: false },
            Kind::Sample { r: (case.seed >> 12) as u16, c: (case.seed >> 28) as u16, col_axis: true },
            Kind::Row { i: 0 },
            Kind::Row { i: 65535 },
            Kind::RowNs { ns: NsSel::Parity, row: 65535 },
        ];
        for k in 0..h.present.len().min(6) {
            let sel = ((k as u32 * 65536 + 32768) / h.present.len() as u32) as u16;
            kinds.push(Kind::RowNs { ns: NsSel::Present(sel), row: 1 });
        }
        for kind in kinds {
            let b = build_block(&env, &BlockCase { hsel, kind, fault: Fault::None, esel: 2 });
            judge_hash(obs, &env, &b)?;
        }
    }
    for bc in &case.blocks {
        let b = build_block(&env, bc);
        judge_hash(obs, &env, &b)?;
        // the same instance has to stay sound over a sequence: honest block for the same base id first,
        // then the faulty block again (a multihasher remembering identifiers must not skip verification)
        if b.faulty {
            let honest = build_block(&env, &BlockCase { fault: Fault::None, ..bc.clone() });
            judge_hash(obs, &env, &honest)?;
            obs.label("honest-then-faulty-same-id");
            judge_hash(obs, &env, &b)?;
        }
    }
    Ok(())
}

fn run_gbc_case(case: &Case, obs: &mut Obs) -> Result<(), Failure> {
    let env = build_env(case)?;
    for bc in &case.blocks {
        let b = build_block(&env, bc);
        judge_gbc(obs, &b, bc.esel)?;
    }
    Ok(())
}

// ------------------------------------------------------------------------------------------ C15 (node half): convert_cid

#[derive(Clone, Debug, Serialize, Deserialize)]
pub enum CidCase {
    Sample { r: u16, c: u16, h: u64 },
    Row { i: u16, h: u64 },
    RowNs { ns: NsSel, i: u16, h: u64 },
    /// arbitrary CIDv1 held in a CidGeneric<128>
    Generic { codec: u64, code: u64, len: u8, seed: u64 },
    V0 { seed: u64 },
}

fn height_strategy() -> impl Strategy<Value = u64> {
    prop_oneof![Just(1u64), Just(2), Just(1 << 32), Just(1 << 63), Just(u64::MAX), any::<u64>(), 1u64..100_000, Just(0u64)]
}

fn index_strategy() -> impl Strategy<Value = u16> {
    prop_oneof![Just(0u16), Just(1), Just(1 << 15), Just(65535), any::<u16>()]
}

fn cid_case_strategy() -> impl Strategy<Value = CidCase> {
    let code = prop_oneof![Just(0x12u64), Just(0x7811), Just(0x7801), Just(0x7821), Just(0u64), Just(u64::MAX), any::<u64>()];
    let codec = prop_oneof![Just(0x55u64), Just(0x70), Just(0x7810), Just(0x7800), Just(0x7820), any::<u64>()];
    let len = prop_oneof![Just(0u8), Just(10), Just(12), Just(32), Just(39), Just(63), Just(64), Just(65), Just(66), Just(127), Just(128), 0u8..=128];
    prop_oneof![
        3 => (index_strategy(), index_strategy(), height_strategy()).prop_map(|(r, c, h)| CidCase::Sample { r, c, h }),
        2 => (index_strategy(), height_strategy()).prop_map(|(i, h)| CidCase::Row { i, h }),
        3 => (ns_sel_strategy(), index_strategy(), height_strategy()).prop_map(|(ns, i, h)| CidCase::RowNs { ns, i, h }),
        4 => (codec, code, len, any::<u64>()).prop_map(|(codec, code, len, seed)| CidCase::Generic { codec, code, len, seed }),
        1 => any::<u64>().prop_map(|seed| CidCase::V0 { seed }),
    ]
}

fn check_converted<const S: usize>(obs: &mut Obs, what: &str, cid: &CidGeneric<S>, want_bytes: &[u8]) -> Result<Option<Cid>, Failure> {
    let digest_len = cid.hash().digest().len();
    let res = match no_panic(|| hook::convert_cid(cid)) {
        Ok(r) => r,
        Err(rec) => {
            obs.fail(&panic_sig(&rec), format!("convert_cid panicked on {what}: {rec}"))?;
            return Ok(None);
        }
    };
    match res {
        Ok(o) => {
            obs.label("cc-converted");
            obs.check(o.to_bytes() == want_bytes, "C15:convert-cid-changes-bytes", || format!("{what}: converted CID encodes as {} instead of {}", hex::encode(o.to_bytes()), hex::encode(want_bytes)))?;
            obs.check(digest_len <= 64, "C15:convert-cid-accepts-oversized", || format!("{what}: digest of {digest_len} bytes converted into a 64-byte multihash"))?;
            Ok(Some(o))
        }
        Err(e) => {
            obs.label("cc-refused");
            obs.check(digest_len > 64, "C15:convert-cid-refuses-valid", || format!("{what}: digest of {digest_len} bytes refused: {e}"))?;
            Ok(None)
        }
    }
}

fn run_cid_case(c: &CidCase, obs: &mut Obs) -> Result<(), Failure> {
    obs.eval(Some(digest_of(c)));
    // a fixed pseudo header only for namespace selection
    match c {
        CidCase::Sample { r, c: col, h } => {
            obs.label("cc-sample-id");
            let id = SampleId::new(*r, *col, *h);
            let sc = no_panic(|| hook::sample_cid(*r, *col, *h)).map_err(|rec| Failure::new(panic_sig(&rec), format!("sample_cid panicked: {rec}")))?;
            if *h == 0 {
                obs.label("cc-zero-height");
                obs.check(id.is_err() && sc.is_err(), "C15:zero-height-accepted", || "SampleId::new / sample_cid accepted height 0".into())?;
                return Ok(());
            }
            let id = id.map_err(|e| Failure::new("C15:valid-id-refused", format!("SampleId::new({r},{col},{h}): {e}")))?;
            let want = Id::Sample { h: *h, r: *r, c: *col }.cid_bytes();
            let small: CidGeneric<12> = id.into();
            let big = check_converted(obs, "sample id", &small, &want)?.ok_or_else(|| Failure::new("C15:convert-cid-refuses-valid", "sample id CID refused"))?;
            obs.check(SampleId::try_from(big) == Ok(id), "C15:convert-cid-round-trip", || format!("SampleId::try_from(convert_cid(cid)) != id for ({r},{col},{h})"))?;
            let again = check_converted(obs, "sample id (64)", &big, &want)?;
            obs.check(again == Some(big), "C15:convert-cid-not-idempotent", || "convert_cid of a 64-byte CID is not the identity".into())?;
            match sc {
                Ok(sc) => obs.check(sc == big && sc.to_bytes() == want, "C15:sample-cid", || format!("sample_cid({r},{col},{h}) = {sc}, expected {}", hex::encode(&want)))?,
                Err(e) => obs.fail("C15:sample-cid", format!("sample_cid({r},{col},{h}) failed: {e}"))?,
            }
        }
        CidCase::Row { i, h } => {
            obs.label("cc-row-id");
            let id = RowId::new(*i, *h);
            if *h == 0 {
                obs.label("cc-zero-height");
                return obs.check(id.is_err(), "C15:zero-height-accepted", || "RowId::new accepted height 0".into());
            }
            let id = id.map_err(|e| Failure::new("C15:valid-id-refused", format!("RowId::new({i},{h}): {e}")))?;
            let want = Id::Row { h: *h, i: *i }.cid_bytes();
            let small: CidGeneric<10> = id.into();
            let big = check_converted(obs, "row id", &small, &want)?.ok_or_else(|| Failure::new("C15:convert-cid-refuses-valid", "row id CID refused"))?;
            obs.check(RowId::try_from(big) == Ok(id), "C15:convert-cid-round-trip", || format!("RowId::try_from(convert_cid(cid)) != id for ({i},{h})"))?;
        }
        CidCase::RowNs { ns, i, h } => {
            obs.label("cc-rowns-id");
            let nsb: [u8; NS] = match ns {
                NsSel::Present(k) | NsSel::AbsentInRange(k) | NsSel::User(k) => user_ns((*k).max(1)).as_bytes().try_into().unwrap(),
                NsSel::Below => [0; NS],
                NsSel::Above => {
                    let mut n = PARITY_NS;
                    n[NS - 1] = 0xfd;
                    n
                }
                NsSel::Tx => Namespace::TRANSACTION.as_bytes().try_into().unwrap(),
                NsSel::Pfb => Namespace::PAY_FOR_BLOB.as_bytes().try_into().unwrap(),
                NsSel::PrimaryPadding => Namespace::PRIMARY_RESERVED_PADDING.as_bytes().try_into().unwrap(),
                NsSel::TailPadding => Namespace::TAIL_PADDING.as_bytes().try_into().unwrap(),
                NsSel::Parity => PARITY_NS,
            };
            let n = Namespace::from_raw(&nsb).map_err(|e| Failure::new("gen", format!("namespace: {e}")))?;
            let id = RowNamespaceDataId::new(n, *i, *h);
            if *h == 0 {
                obs.label("cc-zero-height");
                return obs.check(id.is_err(), "C15:zero-height-accepted", || "RowNamespaceDataId::new accepted height 0".into());
            }
            let id = id.map_err(|e| Failure::new("C15:valid-id-refused", format!("RowNamespaceDataId::new: {e}")))?;
            let want = Id::RowNs { h: *h, i: *i, ns: nsb }.cid_bytes();
            let small: CidGeneric<39> = id.into();
            let big = check_converted(obs, "row namespace data id", &small, &want)?.ok_or_else(|| Failure::new("C15:convert-cid-refuses-valid", "row namespace data id CID refused"))?;
            obs.check(RowNamespaceDataId::try_from(big) == Ok(id), "C15:convert-cid-round-trip", || format!("RowNamespaceDataId::try_from(convert_cid(cid)) != id for ({i},{h})"))?;
        }
        CidCase::Generic { codec, code, len, seed } => {
            let digest = Prng::new(*seed).bytes(*len as usize);
            let mh = Multihash::<128>::wrap(*code, &digest).map_err(|e| Failure::new("gen", format!("multihash: {e}")))?;
            let cid = CidGeneric::<128>::new_v1(*codec, mh);
            let want = cid_bytes(1, *codec, *code, &digest);
            obs.label(if *len > 64 { "cc-generic-oversized" } else { "cc-generic-fits" });
            obs.check(cid.to_bytes() == want, "gen", || "hand-encoded CID differs from the cid crate's".into())?;
            check_converted(obs, "generic CIDv1", &cid, &want)?;
        }
        CidCase::V0 { seed } => {
            obs.label("cc-v0");
            let digest = Prng::new(*seed).bytes(32);
            let mh = Multihash::<128>::wrap(0x12, &digest).unwrap();
            let cid = CidGeneric::<128>::new_v0(mh).map_err(|e| Failure::new("gen", format!("cid v0: {e}")))?;
            let want = cid.to_bytes();
            if let Some(o) = check_converted(obs, "CIDv0", &cid, &want)? {
                obs.check(o.version() == cid::Version::V0, "C15:convert-cid-changes-bytes", || "CIDv0 converted to another version".into())?;
            }
        }
    }
    Ok(())
}

// ------------------------------------------------------------------------------------------ run

pub fn run(ctx: &mut Ctx) {
    ctx.enable_crash_sentinel();
    ctx.assume("ground truth: squares from the harness' generator extended by ExtendedDataSquare::from_ods, stored headers from lv_gen::chain (accepted by InMemoryStore::insert, i.e. validated and linked); accepted containers are judged by value against a brute-force index of the stored square (eds.share(r,c), the full row, a scan of the namespace in the row), identifiers and multihashes are parsed/encoded by hand");
    ctx.assume("honest containers are produced by Sample::new / Row shares / ExtendedDataSquare::get_namespace_data of celestia-types; honest => accepted is asserted for those (for row-namespace-data only when the row's root range covers the namespace)");
    ctx.assume("a panic inside ShwapMultihasher::hash, get_block_container or convert_cid is a violation (C10: 'otherwise it reports an error'); panics originating in nmt-rs are tracked as open known findings owned by C16");
    ctx.assume("row-namespace-data for the PARITY namespace in a data row (row < width/2): the NMT ignores the max namespace, so the row root's range excludes the parity leaves; both the empty answer and the brute-force scan are admitted there (no caller requests it: DataAvailabilityHeader::row_contains is false)");
    ctx.assume("get_block_container: 'embedded CID' is the CID parsed from the block's cid field by the cid crate (a prefix parse, as the code does); equality is equality of parsed CIDs");
    ctx.essential(&[
        "honest-sample",
        "honest-row",
        "honest-rowns",
        "accepted",
        "rejected",
        "unknown-height",
        "other-stored-height",
        "other-id-sample-same-row",
        "other-id-sample-same-col",
        "other-id-row",
        "other-id-rowns-namespace",
        "other-id-rowns-row",
        "other-type-container",
        "cid-wrong-codec",
        "cid-wrong-multihash-code",
        "cid-wrong-length",
        "cid-zero-height",
        "cid-invalid-namespace",
        "code-cid-type-mismatch",
        "unknown-multihash-code",
        "alter-share",
        "proof-shift-range",
        "proof-drop-node",
        "container-byte-mutation",
        "truncated-block",
        "fault-reaches-container-verification",
        "gbc-cid-equal",
        "gbc-cid-differs",
        "gbc-returned",
        "gbc-refused",
        "cc-sample-id",
        "cc-row-id",
        "cc-rowns-id",
        "cc-generic-oversized",
        "cc-generic-fits",
        "cc-zero-height",
    ]);
    let stores = ctx.tier.pick(400, 6000);
    let nblocks = ctx.tier.pick(120, 160);
    let max_log2 = ctx.tier.pick(3, 4); // ODS width 1..8 = EDS width 2..16 (thorough: EDS 32)
    ctx.proptest(
        "multihasher",
        "per case: InMemoryStore holding a generated chain of 3..8 headers (1..3 validators, start height 1 / small / 2^32..2^40) over real squares of EDS width 2..16 (thorough 32) (or the empty block); 1..240 (avg ~120) generated blocks plus systematic honest ones, Block{cid, container} passed to the real ShwapMultihasher with a multihash code: honest Sample (both axes) / Row (left and right half) / RowNamespaceData (present, absent-in-range, below/above, reserved, parity namespaces; rows inside and outside the namespace range), and faults: id of an unknown height, of another stored height, of another coordinate/row/namespace, container of another type, CID with wrong codec / multihash code / digest length / length field / version / zero height / invalid namespace / trailing bytes / v0 / byte mutations, code-CID type mismatch, unknown multihash code, typed container mutations (share altered/foreign/dropped/duplicated/swapped/cleared/neighbour-namespace shares added, proof range shifted or set to integer boundaries, nodes dropped/duplicated/swapped/truncated/foreign/bit-flipped/namespace-swapped, leaf hash edits, ignore-max flag, proof of another position, proof dropped), generic byte/protobuf mutations of container and block, truncated/empty block. hash Ok(mh) => block decodes, embedded CID is a well-formed id of the code's type (reference parser), its height is stored, the container is by value the data at the id in that square, mh == multihash(id); honest => Ok; never a panic. Non-trivial = fault case whose id resolves to a stored header and whose container lumina's decoder accepts (reaches container.verify); distinct by block bytes + code",
        stores,
        move || case_strategy(nblocks, max_log2),
        run_store_case,
    );
    let gbc_cases = ctx.tier.pick(160, 1600);
    ctx.proptest(
        "get-block-container",
        "same block generator; get_block_container(expected, block) with expected = the requested id's CID, the embedded CID, or a neighbouring id's CID: Ok(c) <=> block decodes and its embedded CID (parsed) equals expected, and c is the block's container field. Non-trivial = CIDs differ or the block carries a fault",
        gbc_cases,
        move || case_strategy(nblocks, 2),
        run_gbc_case,
    );
    let cid_cases = ctx.tier.pick(100_000, 1_000_000);
    ctx.proptest(
        "c15-convert-cid",
        "node half of C15: ids of the three CID-bearing Shwap types over boundary heights {0,1,2,2^32,2^63,u64::MAX,random}, indices {0,1,2^15,65535,random}, reserved/user/parity namespaces: CidGeneric<SIZE>::from(id) -> convert_cid -> 64-byte Cid has the hand-encoded bytes, Id::try_from gives the id back, conversion is idempotent, sample_cid agrees, height 0 is refused; arbitrary CIDv1/v0 in a CidGeneric<128> with digest lengths 0..128: converted iff digest <= 64 bytes, bytes preserved. Every case non-trivial (distinct by recipe)",
        cid_cases,
        cid_case_strategy,
        run_cid_case,
    );
}
