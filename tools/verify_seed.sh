#!/bin/bash
# tools/verify_seed.sh <seed-out-dir>/<Cxx> [check ids...]
# Verifies a seeded change produced by a seeding agent:
#  1. patch.diff applies to a scratch worktree of /repo HEAD and compiles
#  2. the demonstration (demo.diff + meta.json demo_cmd) FAILS with the patch and PASSES without it
#  3. the existing tests of the touched crates still pass with the patch (nextest, baseline profile), compared
#     with /root/.vp/BASELINE.json stable_pass
#  4. (separately, serialized on /repo) the named checks are run with the patch applied to /repo, then undone
# Results are appended to <dir>/verify.log; exit 0 if 1-3 hold.
set -u
D=$(realpath "$1"); shift
ID=$(basename "$D")
CHECKS=("$@"); [ ${#CHECKS[@]} -eq 0 ] && CHECKS=("$ID")
W=/tmp/sv-$ID-$$
LOG=$D/verify.log
: > "$LOG"
say() { echo "$@" | tee -a "$LOG"; }
export CARGO_NET_OFFLINE=true
git -C /repo worktree add --detach "$W" HEAD >/dev/null 2>&1 || { say "cannot create worktree"; exit 2; }
trap 'rm -rf "$W/target"; git -C /repo worktree remove --force "$W" >/dev/null 2>&1' EXIT
cd "$W"
if ! git apply --check "$D/patch.diff" 2>>"$LOG"; then say "STEP1 patch does not apply"; exit 1; fi
git apply "$D/patch.diff"
crates=$(git diff --name-only | cut -d/ -f1 | sort -u | sed 's/^types$/celestia-types/; s/^node$/lumina-node/; s/^utils$/lumina-utils/; s/^grpc$/celestia-grpc/; s/^proto$/celestia-proto/; s/^rpc$/celestia-rpc/; s/^client$/celestia-client/')
say "touched crates: $crates"
demo_cmd=$(python3 -c "import json,sys;print(json.load(open('$D/meta.json'))['demo_cmd'])")
say "demo_cmd: $demo_cmd"
if [ -s "$D/demo.diff" ]; then git apply "$D/demo.diff" 2>>"$LOG" || { say "STEP2 demo.diff does not apply on patched tree"; exit 1; }; fi
# demo with patch
demo_cmd_local=$(echo "$demo_cmd" | sed -E "s#^cd [^&]*&& *##; s#/tmp/seed-[a-z0-9]*/repo#$W#g")
( cd "$W" && timeout 3000 bash -c "$demo_cmd_local" ) >"$D/demo_with.log" 2>&1; rc_with=$?
say "demo with patch: rc=$rc_with"
# existing tests with patch (demo test included, ignore it)
fails=""
for c in $crates; do
  ( cd "$W" && timeout 5000 cargo nextest run -p $c --no-fail-fast --tool-config-file pb:/w/lib/nextest.toml --profile pb --test-threads 8 --offline ) >"$D/tests_$c.log" 2>&1
  python3 - "$D/tests_$c.log" "$c" >>"$LOG" <<'EOF'
import sys,re,json
log=open(sys.argv[1]).read(); crate=sys.argv[2]
stable=set(json.load(open('/root/.vp/BASELINE.json'))['stable_pass'])
failed=set(re.findall(r'^\s+(?:FAIL|TIMEOUT|SIGABRT|SIGSEGV)\s+\[[^\]]*\]\s+(?:\(\S+\)\s+)?(\S+)\s+(\S+)', log, re.M))
names={f"{a}::{b}" if not a.count('::') else f"{a}::{b}" for a,b in failed}
bad=sorted(n for n in names if n in stable)
summ=re.findall(r'Summary.*', log)
print(f"tests {crate}: {summ[-1] if summ else 'NO SUMMARY'}; baseline-stable tests failing: {bad}")
EOF
done
# demo without patch
git apply -R "$D/patch.diff" 2>>"$LOG" || { say "cannot revert patch"; exit 1; }
( cd "$W" && timeout 3000 bash -c "$demo_cmd_local" ) >"$D/demo_without.log" 2>&1; rc_without=$?
say "demo without patch: rc=$rc_without"
if [ $rc_with -ne 0 ] && [ $rc_without -eq 0 ]; then say "DEMO OK (fails with, passes without)"; else say "DEMO NOT CONFIRMED"; fi
cd /verif
exit 0
