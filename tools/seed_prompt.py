#!/usr/bin/env python3
"""prints the prompt for a seeding agent: seed_prompt.py <name> <Cxx> [<Cyy> ...]"""
import json,sys
import os
name=sys.argv[1]; ids=sys.argv[2:]
extra=os.environ.get("SEED_EXTRA","")
props={json.loads(l)['id']:json.loads(l) for l in open('/verif/properties.jsonl')}
out=[]
out.append(f"""You are a software engineer helping to evaluate a test-generation tool. You work on the Rust repository eigerco/lumina (a Celestia data-availability light node) in your own scratch git worktree. The sandbox is OFFLINE: nothing can be downloaded; always pass `--offline` to cargo (or set CARGO_NET_OFFLINE=true). The machine is shared with other agents and may be heavily loaded: give cargo long timeouts, run long commands in the background rather than re-issuing them, never kill processes you did not start.

Setup (your name is `{name}`):
```
mkdir -p /tmp/{name}/out
git -C /repo worktree add --detach /tmp/{name}/repo HEAD
cd /tmp/{name}/repo
```
Work ONLY inside /tmp/{name}. Do NOT read or list anything under /verif, /tmp/lv* or other agents' directories — what you produce must be independent of any existing verification machinery. Do not edit /repo itself. (Files named `*_verif_hooks.rs` and code under `#[cfg(eigerco_lumina_verif)]` in the repository are inert test hooks: ignore them and do not modify them.)

For EACH of the semantic properties below, produce ONE change ("seeded defect") to the repository's non-test source code that BREAKS the property, such that:
 1. the workspace still compiles, and the EXISTING tests of every crate you touched still pass unedited (`cargo nextest run -p <crate> --offline --no-fail-fast` — crates: celestia-types, lumina-node, lumina-utils, celestia-grpc; a handful of lumina-node/celestia-grpc/celestia-client integration tests need a network or a running bridge node and fail regardless — compare against a run on the unmodified worktree and only require that no test that passed before fails now; timing-sensitive tests may flake under load, re-run those alone);
 2. the defect is REALISTIC (the kind of mistake a refactoring, an optimisation or an off-by-one could introduce — not a blatant `return Ok(())`) and SUBTLE: it must need something specific to manifest — a particular interleaving, a crash or fault at a particular point, a multi-step sequence of operations, an unusual/boundary input, or two cooperating sites that each look fine alone — not something ordinary use would expose at once;
 3. you provide a DEMONSTRATION: a new test (a `#[test]`/`#[tokio::test]` added in a new file or a new test function, or a small example program) that FAILS with your change applied and PASSES on the unmodified code, exercising the public/observable behaviour the property talks about. Actually run it both ways and record the outputs.

Deliverables per property `Cxx` in `/tmp/{name}/out/Cxx/`:
 * `patch.diff` — `git diff` of the source change ONLY (no tests, no demo), applying cleanly to /repo HEAD with `git apply`;
 * `demo.diff` — `git diff` adding ONLY the demonstration test/program (applies on top of either the clean or the patched tree);
 * `meta.json` — {{"property": "Cxx", "summary": "<one paragraph: what was changed and why it breaks the property>", "needs": "<what specific input/sequence/interleaving/fault is needed to manifest>", "demo_cmd": "<exact command that runs the demonstration>", "demo_result_with_patch": "<fail + key output line>", "demo_result_without_patch": "pass", "existing_tests": "<what you ran and the pass/fail counts with the patch vs. without>"}}.
Write plain files only (no .md). When everything is delivered, remove your build output and worktree: `rm -rf /tmp/{name}/repo/target; git -C /repo worktree remove --force /tmp/{name}/repo`. Your final message: a short summary per property (files, what the change is, how the demo fails).

""")
if extra: out.append(extra+"\n")
out.append("Properties:\n")
for i in ids:
    p=props[i]
    out.append(f"--- {i}: {p['title']}\nStatement: {p['statement']}\nQuantified over: {p['quantifier']['text']}\nWhy the existing tests cannot settle it: {p['why_tests_cant']}\nCode anchors: {', '.join(p['anchors']['files'])}\n")
print('\n'.join(out))
