#!/usr/bin/env python3
"""finalize_seed.py <Cxx> [--force]: turns seeded_in/<Cxx> (agent output + verify.log + check.log) into seeded/<Cxx>/
(patch.diff, demo.diff, meta.json). Refuses unless the demonstration was confirmed (fails with, passes without) and
no baseline-stable test fails with the patch."""
import json,sys,os,re,shutil
i=sys.argv[1]; force='--force' in sys.argv
src=f'/verif/seeded_in/{i}'; dst=f'/verif/seeded/{i}'
v=open(f'{src}/verify.log').read() if os.path.exists(f'{src}/verify.log') else ''
c=open(f'{src}/check.log').read() if os.path.exists(f'{src}/check.log') else ''
demo_ok='DEMO OK' in v
stable_fail=re.findall(r'baseline-stable tests failing: (\[.*?\])', v)
tests_ok=bool(stable_fail) and all(x=='[]' for x in stable_fail)
if not (demo_ok and tests_ok) and not force:
    print(f'{i}: NOT finalized: demo_ok={demo_ok} tests_ok={tests_ok} ({stable_fail})'); sys.exit(1)
m=json.load(open(f'{src}/meta.json'))
checks=[]
for line in c.splitlines():
    mm=re.match(r'CHECK (C\d+) on seeded \S+: rc=(\d+) (\d+)s :: (.*)',line)
    if mm: checks.append({"check":mm.group(1),"exit":int(mm.group(2)),"wall_s":int(mm.group(3)),"output":mm.group(4)[:400]})
# keep the last result per check
last={}
for x in checks: last[x['check']]=x
out={
 "property": m.get('property',i),
 "breaks": m.get('summary'),
 "needs_to_manifest": m.get('needs'),
 "demonstration": {"cmd": m.get('demo_cmd'), "with_patch": m.get('demo_result_with_patch'), "without_patch": m.get('demo_result_without_patch')},
 "origin": "fresh sub-agent given only the property text and a scratch worktree of /repo (tools/seed_prompt.py)",
 "what_i_ran": {
   "demo_and_tests": "tools/verify_seed.sh (scratch worktree of /repo HEAD: apply patch.diff + demo.diff, run demo -> must fail; run the touched crates' existing tests with the baseline nextest profile and compare with BASELINE.json stable_pass; revert patch, run demo -> must pass)",
   "verify_log": v.strip().splitlines(),
   "checks": "tools/lab_check.sh (private worktree + harness copy; same as: git -C /repo apply patch.diff; ./check <id> --tier quick; git -C /repo checkout -- .)",
   "check_results": list(last.values()),
 },
 "caught_by": [x['check'] for x in last.values() if x['exit']==1],
 "missed_by": [x['check'] for x in last.values() if x['exit']!=1],
}
os.makedirs(dst,exist_ok=True)
shutil.copy(f'{src}/patch.diff',f'{dst}/patch.diff')
if os.path.exists(f'{src}/demo.diff'): shutil.copy(f'{src}/demo.diff',f'{dst}/demo.diff')
json.dump(out,open(f'{dst}/meta.json','w'),indent=1)
print(f'{i}: finalized; caught_by={out["caught_by"]} missed_by={out["missed_by"]}')
