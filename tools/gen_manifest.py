#!/usr/bin/env python3
"""Regenerates /verif/MANIFEST.json from tools/checks.json (claimed checks) and properties.jsonl.
Every property without an entry in checks.json is listed under not_applicable with its reason
(from tools/unclaimed.json, default: harness not built)."""
import json, os, subprocess
R = os.path.dirname(os.path.dirname(os.path.abspath(__file__)))
props = [json.loads(l) for l in open(f"{R}/properties.jsonl")]
checks = json.load(open(f"{R}/tools/checks.json"))
unclaimed = json.load(open(f"{R}/tools/unclaimed.json")) if os.path.exists(f"{R}/tools/unclaimed.json") else {}
engine_of = lambda i: ("lv-types" if i in {"C01","C02","C03","C04","C05","C06","C07","C08","C11","C12","C13","C14","C15","C42","C46","C47"}
                       else "lv-grpc" if i in {"C43","C44","C45"} else "lv-node")
def commits():
    try:
        out = subprocess.check_output(["git","-C","/repo","log","--format=%h %s","5c0c409..HEAD"], text=True)
        return [l.split()[0] for l in out.splitlines() if l.split(" ",1)[1].startswith("verif-hooks")]
    except Exception:
        return []
m = {
  "version": 1,
  "setup_cmd": "cd /verif/harness && CARGO_NET_OFFLINE=true cargo build --release --workspace",
  "hooks": {
    "guard": "cfg(eigerco_lumina_verif)",
    "enable": "RUSTFLAGS=--cfg eigerco_lumina_verif via /verif/harness/.cargo/config.toml ([build] rustflags); the harness depends on /repo crates by path, so every ./check rebuilds from /repo's working tree",
    "baseline_off_cmd": "cd /repo && cargo nextest run --workspace --no-fail-fast --offline --test-threads 8 || cargo test --workspace --no-fail-fast --offline",
    "source_commits": commits(),
    "add_only": True,
  },
  "engines": [
    {"name":"lv-common","path":"harness/common","serves_properties":[c for c in sorted(checks)],"kind_free_text":"proptest-driven engine: 16 deterministic shards per sub-check, catch_unwind, classification, known-findings exclusion, shrinking, replay files, evidence"},
    {"name":"lv-gen","path":"harness/gen","serves_properties":[c for c in sorted(checks)],"kind_free_text":"generators (multi-validator chains, data squares, protobuf/byte mutators) and independent reference crypto (RFC6962, NMT, share splitting, ADR-013)"},
    {"name":"lv-types","path":"harness/types","serves_properties":[c for c in sorted(checks) if engine_of(c)=="lv-types"],"kind_free_text":"checks over celestia-types"},
    {"name":"lv-node","path":"harness/node","serves_properties":[c for c in sorted(checks) if engine_of(c)=="lv-node"],"kind_free_text":"checks over lumina-node (pure functions, stores, component simulations)"},
    {"name":"lv-grpc","path":"harness/grpc","serves_properties":[c for c in sorted(checks) if engine_of(c)=="lv-grpc"],"kind_free_text":"checks over celestia-grpc against an in-process fake node"},
  ],
  "checks": [],
  "not_applicable": [],
  "notes": "All checks are property-based tests / mutation fuzzing with explicit oracles (see DESIGN.md). exit 2 = inconclusive (build failure, watchdog, degenerate generator), never a violation.",
}
for p in props:
    i = p["id"]
    if i in checks:
        c = checks[i]
        m["checks"].append({
            "property_id": i,
            "quick_cmd": f"./check {i} --tier quick",
            "thorough_cmd": f"./check {i} --tier thorough",
            "evidence_file": f"/verif/evidence/{i}.json",
            "replay_cmd_template": f"./check {i} --replay {{path}}",
            "engine": engine_of(i),
            "level_claimed": {"category": c.get("category","exploration"), "text": c["text"], "design_ref": f"DESIGN.md §2 {i}"},
            "level_note": c["note"],
            "technique": c["technique"],
        })
    else:
        m["not_applicable"].append({"property_id": i, "reason": unclaimed.get(i, "not claimed: its generated-input check is designed (DESIGN.md §2) but the harness for it has not been built yet")})
json.dump(m, open(f"{R}/MANIFEST.json","w"), indent=1)
print("claimed", len(m["checks"]), "unclaimed", len(m["not_applicable"]))
