#!/usr/bin/env python3
"""prints a nextest filterset selecting the baseline-stable tests of a crate (by last path segment)"""
import json,sys
c=sys.argv[1]
st=[s for s in json.load(open('/root/.vp/BASELINE.json'))['stable_pass'] if s.split('::')[0]==c]
names=sorted({s.split('::')[-1] for s in st})
print(' | '.join(f'test(/{n}$/)' for n in names) or 'all()')
