#!/usr/bin/env python3
"""prints the seeded-change matrix (markdown) from /verif/seeded/*/meta.json"""
import json,glob,os
rows=[]
for d in sorted(glob.glob('/verif/seeded/*/')):
    i=os.path.basename(d.rstrip('/'))
    m=json.load(open(d+'meta.json'))
    first=(m.get('breaks') or '').replace('\n',' ')
    first=first[:230]+('…' if len(first)>230 else '')
    needs=(m.get('needs_to_manifest') or '').replace('\n',' ')
    needs=needs[:160]+('…' if len(needs)>160 else '')
    caught=', '.join(m.get('caught_by',[])) or '—'
    missed=', '.join(m.get('missed_by',[])) or ''
    sig=''
    for r in m['what_i_ran']['check_results']:
        if r['exit']==1:
            import re
            mm=re.search(r'signature: ([^|]+)',r['output']); sig=mm.group(1).strip() if mm else ''
    rows.append(f"| {i} | {first} | {needs} | {caught}{(' (missed by '+missed+')') if missed else ''} | `{sig}` |")
print("| seed | change | needs | caught by | signature |\n|---|---|---|---|---|")
print('\n'.join(rows))
