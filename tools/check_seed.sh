#!/bin/bash
# tools/check_seed.sh <seed-dir>/<Cxx> [check ids...] : applies patch.diff to /repo (must be clean and idle), runs the
# named checks (quick tier) with evidence/replays redirected to a scratch VERIF_ROOT, then undoes the patch.
set -u
D=$(realpath "$1"); shift
ID=$(basename "$D")
CHECKS=("$@"); [ ${#CHECKS[@]} -eq 0 ] && CHECKS=("$ID")
LOG=$D/check.log
say() { echo "$@" | tee -a "$LOG"; }
cd /verif
(
  flock 9
  if [ -n "$(git -C /repo status --porcelain)" ]; then say "/repo not clean, skipping"; exit 3; fi
  git -C /repo apply "$D/patch.diff" || { say "patch does not apply to /repo"; exit 3; }
  R=/tmp/sv-root-$ID; mkdir -p $R/evidence $R/replays; cp /verif/known_findings.json $R/
  for c in "${CHECKS[@]}"; do
    s=$(date +%s)
    out=$(VERIF_ROOT=$R ./check $c --tier ${TIER:-quick} 2>&1); rc=$?
    e=$(date +%s)
    say "CHECK $c on seeded $ID: rc=$rc $((e-s))s :: $(echo "$out" | grep -E '^(OK|VIOLATION|INCONCLUSIVE|  signature|  observed)' | head -4 | tr '\n' '|' | cut -c1-500)"
  done
  git -C /repo checkout -- .
  mkdir -p "$D/replays"; cp $R/replays/*.json "$D/replays/" 2>/dev/null
  rm -rf $R
) 9>/tmp/repo-seed.lock
