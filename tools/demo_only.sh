#!/bin/bash
# tools/demo_only.sh <seed-dir>/<Cxx>: re-runs only the demonstration (with / without the patch) and appends to verify.log
set -u
D=$(realpath "$1"); ID=$(basename "$D"); W=/tmp/sd-$ID-$$; LOG=$D/verify.log
say() { echo "$@" | tee -a "$LOG"; }
export CARGO_NET_OFFLINE=true
git -C /repo worktree add --detach "$W" HEAD >/dev/null 2>&1 || exit 2
trap 'rm -rf "$W/target"; git -C /repo worktree remove --force "$W" >/dev/null 2>&1' EXIT
cd "$W"; git apply "$D/patch.diff" || exit 1
[ -s "$D/demo.diff" ] && git apply "$D/demo.diff"
demo_cmd=$(python3 -c "import json;print(json.load(open('$D/meta.json'))['demo_cmd'])")
cmd=$(echo "$demo_cmd" | sed -E "s#^cd [^&]*&& *##; s#/tmp/seed-[a-z0-9]*/repo#$W#g")
say "demo_cmd (re-run): $cmd"
( cd "$W" && rm -f target/.rustc_info.json; timeout 3000 bash -c "$cmd" </dev/null ) >"$D/demo_with.log" 2>&1; a=$?
git apply -R "$D/patch.diff"
( cd "$W" && rm -f target/.rustc_info.json; timeout 3000 bash -c "$cmd" </dev/null ) >"$D/demo_without.log" 2>&1; b=$?
say "demo with patch: rc=$a"; say "demo without patch: rc=$b"
if [ $a -ne 0 ] && [ $b -eq 0 ]; then say "DEMO OK (fails with, passes without)"; else say "DEMO NOT CONFIRMED"; fi
