#!/usr/bin/env python3
"""stable_failures.py <nextest log> <crate>: lists baseline-stable tests that failed; writes them to <log>.bad"""
import sys,re,json
log=open(sys.argv[1]).read(); crate=sys.argv[2]
stable=set(json.load(open('/root/.vp/BASELINE.json'))['stable_pass'])
failed=set(re.findall(r'^\s+(?:FAIL|TIMEOUT|SIGABRT|SIGSEGV)\s+\[[^\]]*\]\s+(?:\(\S+\)\s+)?(\S+)\s+(\S+)', log, re.M))
names={f"{a}::{b}" for a,b in failed}
bad=sorted(n for n in names if n in stable)
summ=re.findall(r'Summary.*', log)
open(sys.argv[1]+'.bad','w').write('\n'.join(bad))
print(f"tests {crate}: {summ[-1] if summ else 'NO SUMMARY'}; baseline-stable tests failing in the full run: {bad}")
