#!/bin/bash
# tools/lab_check.sh <seed-dir>/<Cxx> [check ids...] : same as check_seed.sh but in a private lab
# (/tmp/seedlab: worktree of /repo HEAD + copy of the harness pointing at it), so /repo stays untouched.
set -u
D=$(realpath "$1"); shift
ID=$(basename "$D")
CHECKS=("$@"); [ ${#CHECKS[@]} -eq 0 ] && CHECKS=("$ID")
L=/tmp/seedlab
LOG=$D/check.log
say() { echo "$@" | tee -a "$LOG"; }
export CARGO_NET_OFFLINE=true
(
  flock 9
  if [ ! -d $L/repo ]; then
    mkdir -p $L/verif/evidence $L/verif/replays
    git -C /repo worktree add --detach $L/repo HEAD >/dev/null 2>&1
    rsync -a --exclude target /verif/harness/ $L/harness/
    cp -a /verif/harness/target $L/harness/target
  fi
  git -C $L/repo checkout -q --detach $(git -C /repo rev-parse HEAD) && git -C $L/repo checkout -q -- . && git -C $L/repo clean -fdq -e target
  rsync -a --exclude target --exclude Cargo.toml /verif/harness/ $L/harness/
  sed "s#/repo/#$L/repo/#g" /verif/harness/Cargo.toml > $L/harness/Cargo.toml
  cp /verif/known_findings.json $L/verif/
  rm -f $L/verif/replays/*.json
  git -C $L/repo apply "$D/patch.diff" || { say "patch does not apply"; exit 3; }
  for c in "${CHECKS[@]}"; do
    s=$(date +%s)
    out=$(VERIF_HARNESS=$L/harness VERIF_ROOT=$L/verif /verif/check $c --tier ${TIER:-quick} 2>&1); rc=$?
    e=$(date +%s)
    say "CHECK $c on seeded $ID: rc=$rc $((e-s))s :: $(echo "$out" | grep -E '^(OK|VIOLATION|INCONCLUSIVE|  signature|  observed)' | head -4 | tr '\n' '|' | cut -c1-600)"
  done
  git -C $L/repo checkout -q -- .
  mkdir -p "$D/replays"; cp $L/verif/replays/*.json "$D/replays/" 2>/dev/null
) 9>/tmp/seedlab.lock
