#!/usr/bin/env python3
"""(re)writes DESIGN.md §9.8 from /verif/seeded/*/meta.json"""
import subprocess,re
p='/verif/DESIGN.md'
s=open(p).read()
matrix=subprocess.check_output(['python3','/verif/tools/seed_matrix.py'],text=True)
n=matrix.count('\n| C')
sec=f'''
### 9.8 Matrix of stored seeded changes ({n} in `/verif/seeded/`)

Suffix `b` = second round (prompt asked for defects involving state carried across operations or two cooperating sites).
Two second-round seeds (C19, C38) turned out byte-for-byte equivalent to first-round ones (independent agents converged on
the same change) and are not stored twice. "caught by" = the check exits 1 with a VIOLATION line on the patched tree
(quick tier) after the strengthening of §9.7 and is silent on the unchanged tree.

{matrix}
'''
if '### 9.8 Matrix of stored seeded changes' in s:
    s=s[:s.index('\n### 9.8 Matrix of stored seeded changes')]
s=s.rstrip()+'\n'+sec
open(p,'w').write(s)
print('matrix rows',n)
