#!/bin/bash
# tools/run_all.sh [tier] [ids...] : runs checks (all claimed by default) and prints one summary line per check
tier=${1:-quick}; shift
ids="$@"
if [ -z "$ids" ]; then ids=$(python3 -c "import json;print(' '.join(c['property_id'] for c in json.load(open('/verif/MANIFEST.json'))['checks']))"); fi
for id in $ids; do
  s=$(date +%s)
  out=$(./check $id --tier $tier 2>&1); rc=$?
  e=$(date +%s)
  echo "$id rc=$rc $((e-s))s :: $(echo "$out" | grep -E '^(OK|VIOLATION|KNOWN-FINDING|INCONCLUSIVE)' | head -4 | tr '\n' '|' | cut -c1-400)"
done
