#!/usr/bin/env python3
"""apply_fix.py <format-patch file> : applies the patch to /repo as one commit, dropping hunks that add #[test] / #[async_test] functions."""
import subprocess,re,sys
def run(*a): return subprocess.run(a,check=True,capture_output=True,text=True,cwd='/repo').stdout
txt=open(sys.argv[1]).read()
m=re.search(r'^Subject: \[PATCH[^\]]*\] (.*?)\n---\n', txt, re.S|re.M)
raw=m.group(1)
subj,_,body=raw.partition('\n\n')
subj=re.sub(r'\n ', ' ', subj)
msg=subj+('\n\n'+body if body else '')
diff=txt[txt.index('diff --git'):]
diff=diff[:diff.rindex('\n-- \n')+1]
files=re.split(r'(?m)^(?=diff --git )', diff)
out=[]
for f in files:
    if not f: continue
    parts=re.split(r'(?m)^(?=@@ )', f)
    head=parts[0]; hunks=parts[1:]
    keep=[h for h in hunks if '#[test]' not in h and '#[async_test]' not in h and '#[tokio::test]' not in h]
    if keep: out.append(head+''.join(keep))
open('/tmp/_fix.patch','w').write(''.join(out))
run('git','apply','--recount','/tmp/_fix.patch')
run('git','add','-A')
run('git','commit','-qm',msg)
print(run('git','log','--oneline','-1'))
