#!/bin/bash
# tools/verify_seed2.sh <seed-dir>/<Cxx>
# Verifies a seeded change produced by a seeding agent, in a scratch worktree of /repo HEAD:
#  1. patch.diff applies and compiles
#  2. the demonstration (demo.diff + meta.json demo_cmd) FAILS with the patch and PASSES without it
#  3. the baseline-stable tests of the touched crates still pass with the patch (nextest, baseline profile);
#     tests that fail in the full run are re-run alone up to 3 times (timing-sensitive tests flake under load)
# Results go to <dir>/verify.log.
set -u
D=$(realpath "$1")
ID=$(basename "$D")
W=/tmp/sv-$ID-$$
LOG=$D/verify.log
: > "$LOG"
say() { echo "$@" | tee -a "$LOG"; }
export CARGO_NET_OFFLINE=true
git -C /repo worktree add --detach "$W" HEAD >/dev/null 2>&1 || { say "cannot create worktree"; exit 2; }
trap 'rm -rf "$W/target"; git -C /repo worktree remove --force "$W" >/dev/null 2>&1' EXIT
cd "$W"
if ! git apply --check "$D/patch.diff" 2>>"$LOG"; then say "STEP1 patch does not apply"; exit 1; fi
git apply "$D/patch.diff"
crates=$(git diff --name-only | cut -d/ -f1 | sort -u | sed 's/^types$/celestia-types/; s/^node$/lumina-node/; s/^utils$/lumina-utils/; s/^grpc$/celestia-grpc/; s/^proto$/celestia-proto/; s/^rpc$/celestia-rpc/; s/^client$/celestia-client/')
say "touched crates: $crates"
demo_cmd=$(python3 -c "import json,sys;print(json.load(open('$D/meta.json'))['demo_cmd'])")
say "demo_cmd: $demo_cmd"
if [ -s "$D/demo.diff" ]; then git apply "$D/demo.diff" 2>>"$LOG" || { say "STEP2 demo.diff does not apply on patched tree"; exit 1; }; fi
demo_cmd_local=$(echo "$demo_cmd" | sed -E "s#^cd [^&]*&& *##; s#/tmp/seed-[a-z0-9]*/repo#$W#g")
( cd "$W" && rm -f target/.rustc_info.json; timeout 3000 bash -c "$demo_cmd_local" </dev/null ) >"$D/demo_with.log" 2>&1; rc_with=$?
say "demo with patch: rc=$rc_with"
for c in $crates; do
  filt=$(python3 /verif/tools/stable_filter.py "$c")
  ( cd "$W" && rm -f target/.rustc_info.json; timeout 5000 cargo nextest run -p $c --no-fail-fast --tool-config-file pb:/w/lib/nextest.toml --profile pb --test-threads 8 --offline -E "$filt" </dev/null ) >"$D/tests_$c.log" 2>&1
  python3 /verif/tools/stable_failures.py "$D/tests_$c.log" "$c" >>"$LOG"
  still=""
  for t in $(cat "$D/tests_$c.log.bad" 2>/dev/null); do
    short=${t##*::}
    ok=0
    for try in 1 2 3; do
      if ( cd "$W" && timeout 900 cargo nextest run -p $c --no-fail-fast --tool-config-file pb:/w/lib/nextest.toml --profile pb --offline -E "test(/${short}\$/)" ) >>"$D/tests_$c.rerun.log" 2>&1; then ok=1; break; fi
    done
    [ $ok -eq 0 ] && still="$still $t"
  done
  say "baseline-stable tests failing: [${still# }]"
done
git apply -R "$D/patch.diff" 2>>"$LOG" || { say "cannot revert patch"; exit 1; }
( cd "$W" && rm -f target/.rustc_info.json; timeout 3000 bash -c "$demo_cmd_local" </dev/null ) >"$D/demo_without.log" 2>&1; rc_without=$?
say "demo without patch: rc=$rc_without"
if [ $rc_with -ne 0 ] && [ $rc_without -eq 0 ]; then say "DEMO OK (fails with, passes without)"; else say "DEMO NOT CONFIRMED"; fi
exit 0
